"""Determinism self-tests (DESIGN.md 3.9): prove replayability on a sample before trusting any batch.

  a. scenario generation is independent of PYTHONHASHSEED (digests equal under 0, 1 and 7);
  b. the same (VERIF_SEED, hashseed) batch gives the identical batch digest in two fresh
     interpreters and at worker counts 1 and 16 (run outcome never depends on pool scheduling);
  c. the pool workers' global registries are pristine at the end of every batch.
"""
import json
import os
import subprocess
import sys
import time

from dsim import main as M


def gen_digests(pid, n, seed, hs):
    cmd = [M.PY, os.path.join(M.VERIF, "check"), "--gen", pid, "--runs", str(n), "--seed", str(seed)]
    p = subprocess.run(cmd, env=M.child_env(hs), stdout=subprocess.PIPE, stderr=subprocess.PIPE, cwd=M.VERIF)
    out = p.stdout.decode()
    if "@@RESULT@@" not in out:
        raise RuntimeError("gen failed: " + p.stderr.decode()[-1500:])
    return json.loads(out.split("@@RESULT@@", 1)[1].strip().splitlines()[0])


def batch(pid, n, seed, hs, workers):
    p = M.spawn_sub(pid, seed, "quick", n, 1, 0, workers, 300, keep_going=True)
    # spawn_sub pins PYTHONHASHSEED=hashidx; for hs != 0 re-spawn by hand
    if hs != 0:
        p.kill()
        p.communicate()
        cmd = [M.PY, os.path.join(M.VERIF, "check"), "--sub", pid, "--seed", str(seed), "--tier", "quick", "--runs", str(n),
               "--nhash", "1", "--hashidx", "0", "--workers", str(workers), "--budget", "300", "--keep-going"]
        p = subprocess.Popen(cmd, env=M.child_env(hs), stdout=subprocess.PIPE, stderr=subprocess.PIPE, cwd=M.VERIF)
    r, err = M.collect_sub(p, 600)
    if err:
        raise RuntimeError(err)
    return r


def main(a):
    t0 = time.time()
    n = a.runs or 96
    seed = a.seed
    bad = []
    for pid in M.PROPS:
        d0 = gen_digests(pid, 40, seed, 0)
        for hs in (1, 7):
            if gen_digests(pid, 40, seed, hs) != d0:
                bad.append("%s: scenario generation depends on PYTHONHASHSEED=%d" % (pid, hs))
        ref = None
        for hs, workers in ((0, 1), (0, 16), (0, 5), (3, 16), (3, 2)):
            r = batch(pid, n, seed, hs, workers)
            key = (r["runs"], r["logsum"], len(r["violations"]))
            if r["harness_errors"]:
                bad.append("%s: harness errors in self-test batch: %s" % (pid, r["harness_errors"][0]["error"][-400:]))
            if not r["registry_pristine"]:
                bad.append("%s: worker registries not pristine" % pid)
            if r["runs"] != n:
                bad.append("%s: expected %d runs, got %d" % (pid, n, r["runs"]))
            if hs == 0:
                if ref is None:
                    ref = key
                elif key != ref:
                    bad.append("%s: batch digest differs between worker counts / interpreters under hashseed 0: %r vs %r" % (pid, ref, key))
            else:
                if hs not in (0,) and workers == 16:
                    ref3 = key
                elif key != ref3:
                    bad.append("%s: batch digest differs between worker counts under hashseed 3: %r vs %r" % (pid, ref3, key))
        print("selftest: %s ok (generation hash-seed independent; %d-run batch digest stable across workers 1/5/16 "
              "and fresh interpreters)" % (pid, n))
        sys.stdout.flush()
    if bad:
        for b in bad:
            print("HARNESS-ERROR selftest: " + b)
        return 2
    print("selftest: all deterministic (%.1fs)" % (time.time() - t0))
    return 0
