"""Batch driver, minimiser front-end, replay, evidence.  See DESIGN.md section 3.

Process tree of one check invocation:
  check (this file, top)            - executes no jsonschema code
    sub-driver  PYTHONHASHSEED=h    - one per hash seed; owns a fork-based pool
      pool worker                   - imports jsonschema once, stays pristine
        run child (fork)            - executes exactly one simulated run, then _exit
"""
import argparse
import importlib
import json
import os
import random
import subprocess
import sys
import time
import traceback

from dsim import seeds
from dsim.canon import digest

VERIF = os.path.dirname(os.path.dirname(os.path.abspath(__file__)))
REPO = os.environ.get("DSIM_REPO", "/repo")
PY = os.environ.get("DSIM_PYTHON", "/venv/bin/python")
PROPS = ["C07", "C15", "C16", "C18", "C19", "C20"]
CHUNK = 40


def load_prop(pid):
    return importlib.import_module("dsim.props." + pid.lower())


def assert_repo():
    import jsonschema
    want = os.path.realpath(REPO) + os.sep
    got = os.path.realpath(jsonschema.__file__)
    if not got.startswith(want):
        raise SystemExit("HARNESS-ERROR jsonschema imported from %s, expected under %s" % (got, want))


def child_env(hashseed):
    env = dict(os.environ)
    env["PYTHONHASHSEED"] = str(hashseed)
    env["PYTHONPATH"] = REPO + os.pathsep + VERIF
    env["PYTHONDONTWRITEBYTECODE"] = "1"
    env["DSIM_REPO"] = REPO
    return env


# --------------------------------------------------------------------------- one run
def scenario_for(prop, verif_seed, index, tier):
    rs = seeds.run_seed(verif_seed, prop.PROPERTY, index)
    rng = random.Random(rs)
    scn = prop.generate(rng, tier)
    scn["run_seed"] = rs
    scn["index"] = index
    return scn


def run_one(prop, scn):
    from dsim.runner import fork_call, HarnessError
    try:
        res = prop.run(scn, fork_call)
    except HarnessError as e:
        return {"harness_error": str(e)[-3000:]}
    return res


# --------------------------------------------------------------------------- pool worker
def _worker_init():
    sys.path[:0] = [p for p in (REPO, VERIF) if p not in sys.path]
    assert_repo()
    import jsonschema  # noqa: imported once; never executed in this process
    import jsonschema.cli  # noqa


def _registry_digest():
    import jsonschema
    from jsonschema import validators as V, FormatChecker
    return digest([sorted(V.validators), sorted(V.meta_schemas), sorted(FormatChecker.checkers)])


def work_chunk(args):
    pid, verif_seed, tier, indices = args[:4]
    keep_going = args[4] if len(args) > 4 else True
    deadline = args[5] if len(args) > 5 else None
    prop = load_prop(pid)
    reg0 = _registry_digest()
    agg = {"runs": 0, "nontrivial": 0, "steps": 0, "stats": {}, "nt_digests": [], "scheds": [],
           "states": [], "violations": [], "harness_errors": [], "samples": [], "logsum": 0,
           "known": {}}
    seen_states = set()
    seen_sched = set()
    for i in indices:
        if deadline is not None and time.time() > deadline:
            agg["unfinished"] = agg.get("unfinished", 0) + 1     # wall budget reached inside a chunk
            continue
        if agg["violations"] and not keep_going:
            agg["unfinished"] = agg.get("unfinished", 0) + 1     # a violation was found: stop exploring
            continue
        scn = scenario_for(prop, verif_seed, i, tier)
        t_run = time.time()
        res = run_one(prop, scn)
        t_run = time.time() - t_run
        if "harness_error" in res:
            agg["harness_errors"].append({"index": i, "run_seed": scn["run_seed"], "error": res["harness_error"]})
            continue
        agg["runs"] += 1
        agg["steps"] += res.get("steps", 0)
        agg["logsum"] = (agg["logsum"] + int(res["log_digest"], 16) * (2 * i + 1)) % (1 << 64)
        if os.environ.get("DSIM_TRACE_DIGESTS"):       # debugging aid: one line per run (index, log digest)
            with open(os.environ["DSIM_TRACE_DIGESTS"], "a") as f:
                f.write("%s %d %s %.2f\n" % (pid, i, res["log_digest"], t_run))
        for k, v in res.get("stats", {}).items():
            agg["stats"][k] = agg["stats"].get(k, 0) + v
        if res.get("nontrivial"):
            agg["nontrivial"] += 1
            agg["nt_digests"].append(digest(dict((k, v) for k, v in scn.items()
                                                 if k not in ("run_seed", "index")))[:12])
            if len(agg["samples"]) < 1:
                agg["samples"].append({"index": i, "run_seed": scn["run_seed"], "scenario": prop.sample_view(scn)})
        if res.get("sched"):
            seen_sched.add(res["sched"][:12])
        for s in res.get("states", ()):
            seen_states.add(s[:12])
        if res.get("violations"):
            real = []
            for v in res["violations"]:
                kf = prop.known_finding(v, scn)
                if kf:
                    agg["known"][kf] = agg["known"].get(kf, 0) + 1
                else:
                    real.append(v)
            if real:
                agg["violating_runs"] = agg.get("violating_runs", 0) + 1
            if real and len(agg["violations"]) < 3:
                agg["violations"].append({"index": i, "run_seed": scn["run_seed"], "scenario": scn,
                                          "violations": real[:5]})
    agg["scheds"] = sorted(seen_sched)
    agg["states"] = sorted(seen_states)
    agg["registry_pristine"] = (_registry_digest() == reg0)
    return agg


# --------------------------------------------------------------------------- sub-driver
def sub_main(a):
    from concurrent.futures import ProcessPoolExecutor, as_completed
    import multiprocessing
    sys.path[:0] = [p for p in (REPO, VERIF) if p not in sys.path]
    t0 = time.time()
    indices = [i for i in range(a.runs) if i % a.nhash == a.hashidx]
    chunks = [indices[j:j + CHUNK] for j in range(0, len(indices), CHUNK)]
    ctx = multiprocessing.get_context("fork")
    total = {"runs": 0, "nontrivial": 0, "steps": 0, "stats": {}, "nt_digests": set(), "scheds": set(),
             "states": set(), "violations": [], "harness_errors": [], "samples": [], "logsum": 0,
             "known": {}, "registry_pristine": True, "skipped_chunks": 0}
    with ProcessPoolExecutor(max_workers=a.workers, mp_context=ctx, initializer=_worker_init) as ex:
        pending = {}
        it = iter(chunks)
        stop = False

        def submit_more():
            while len(pending) < a.workers * 2:
                try:
                    ch = next(it)
                except StopIteration:
                    return
                f = ex.submit(work_chunk, (a.prop, a.seed, a.tier, ch, a.keep_going, t0 + a.budget * 1.5))
                pending[f] = ch
        submit_more()
        while pending:
            done = next(as_completed(list(pending)))
            pending.pop(done)
            r = done.result()
            total["runs"] += r["runs"]
            total["violating_runs"] = total.get("violating_runs", 0) + r.get("violating_runs", 0)
            total["nontrivial"] += r["nontrivial"]
            total["steps"] += r["steps"]
            total["logsum"] = (total["logsum"] + r["logsum"]) % (1 << 64)
            for k, v in r["stats"].items():
                total["stats"][k] = total["stats"].get(k, 0) + v
            for k, v in r["known"].items():
                total["known"][k] = total["known"].get(k, 0) + v
            total["nt_digests"].update(r["nt_digests"])
            total["scheds"].update(r["scheds"])
            total["states"].update(r["states"])
            total["violations"].extend(r["violations"])
            total["harness_errors"].extend(r["harness_errors"][:3])
            if len(total["samples"]) < 3:
                total["samples"].extend(r["samples"])
            total["registry_pristine"] = total["registry_pristine"] and r["registry_pristine"]
            if total["violations"] and not a.keep_going:
                stop = True
            if time.time() - t0 > a.budget:
                stop = True
            if len(total["harness_errors"]) >= 6:
                stop = True         # something is systematically wrong: do not burn the budget on time-outs
            if not stop:
                submit_more()
            elif pending:
                # stop *starting* runs; let running chunks finish
                for f in list(pending):
                    if f.cancel():
                        pending.pop(f)
                        total["skipped_chunks"] += 1
    total["violations"].sort(key=lambda v: v["index"])
    total["violations"] = total["violations"][:2]
    total["harness_errors"] = total["harness_errors"][:5]
    for k in ("nt_digests", "scheds", "states"):
        total[k] = sorted(total[k])
    total["wall_s"] = time.time() - t0
    sys.stdout.write("\n@@RESULT@@" + json.dumps(total) + "\n")
    sys.stdout.flush()
    return 0


def spawn_sub(pid, seed, tier, runs, nhash, hashidx, workers, budget, keep_going=False):
    cmd = [PY, os.path.join(VERIF, "check"), "--sub", pid, "--seed", str(seed), "--tier", tier, "--runs", str(runs),
           "--nhash", str(nhash), "--hashidx", str(hashidx), "--workers", str(workers), "--budget", str(budget)]
    if keep_going:
        cmd.append("--keep-going")
    return subprocess.Popen(cmd, env=child_env(hashidx), stdout=subprocess.PIPE, stderr=subprocess.PIPE, cwd=VERIF)


def collect_sub(p, timeout):
    try:
        out, err = p.communicate(timeout=timeout)
    except subprocess.TimeoutExpired:
        p.kill()
        out, err = p.communicate()
        return None, "sub-driver timed out; stderr tail: " + err.decode(errors="replace")[-1500:]
    out = out.decode(errors="replace")
    if "@@RESULT@@" not in out or p.returncode != 0:
        return None, "sub-driver failed rc=%r stderr tail: %s" % (p.returncode, err.decode(errors="replace")[-3000:])
    return json.loads(out.split("@@RESULT@@", 1)[1].strip().splitlines()[0]), None


# --------------------------------------------------------------------------- single-scenario tools (run in the right hashseed)
def exec_scenario_file(a):
    """--exec FILE: run one scenario file in this interpreter's hash seed; print result JSON."""
    sys.path[:0] = [p for p in (REPO, VERIF) if p not in sys.path]
    _worker_init()
    doc = json.load(open(a.exec))
    scn = doc["scenario"] if "scenario" in doc else doc
    prop = load_prop(scn["property"])
    res = run_one(prop, scn)
    sys.stdout.write("\n@@RESULT@@" + json.dumps(res) + "\n")
    return 0


def minimise_file(a):
    """--minimise FILE: shrink the scenario while the violation class persists; rewrite FILE."""
    from dsim.minimise import minimise
    sys.path[:0] = [p for p in (REPO, VERIF) if p not in sys.path]
    _worker_init()
    doc = json.load(open(a.minimise))
    scn = doc["scenario"]
    prop = load_prop(scn["property"])
    cls = doc["violation_class"]

    def runner(c):
        res = run_one(prop, c)
        if "harness_error" in res:
            return []
        return [prop.violation_class(v) for v in res.get("violations", ()) if not prop.known_finding(v, c)]
    small, used = minimise(scn, cls, prop, runner, budget=a.min_budget)
    res = run_one(prop, small)
    doc["original_scenario_digest"] = digest(scn)
    doc["scenario"] = small
    doc["minimiser_executions"] = used
    doc["violations"] = [v for v in res.get("violations", ()) if prop.violation_class(v) == cls][:3]
    doc["log_digest"] = res.get("log_digest")
    json.dump(doc, open(a.minimise, "w"), indent=1)  # never sort keys (see above)
    sys.stdout.write("\n@@RESULT@@" + json.dumps({"used": used}) + "\n")
    return 0


def run_tool(flag, path, hashseed, timeout=900, extra=()):
    cmd = [PY, os.path.join(VERIF, "check"), flag, path] + list(extra)
    p = subprocess.run(cmd, env=child_env(hashseed), stdout=subprocess.PIPE, stderr=subprocess.PIPE,
                       cwd=VERIF, timeout=timeout)
    out = p.stdout.decode(errors="replace")
    if "@@RESULT@@" not in out:
        raise RuntimeError("tool %s failed rc=%r: %s" % (flag, p.returncode, p.stderr.decode(errors="replace")[-2000:]))
    return json.loads(out.split("@@RESULT@@", 1)[1].strip().splitlines()[0])


# --------------------------------------------------------------------------- known findings
def load_known():
    path = os.path.join(VERIF, "known_findings.json")
    if not os.path.exists(path):
        return {"findings": [], "fixed": []}
    return json.load(open(path))


# --------------------------------------------------------------------------- replay
def replay(a):
    doc = json.load(open(a.replay))
    scn = doc["scenario"]
    pid = scn["property"]
    prop = load_prop(pid)
    hs = doc.get("hashseed", 0)
    res = run_tool("--exec", a.replay, hs)
    if "harness_error" in res:
        print("HARNESS-ERROR property=%s replay=%s %s" % (pid, a.replay, res["harness_error"][-500:]))
        return 2
    classes = [prop.violation_class(v) for v in res.get("violations", ())
               if not prop.known_finding(v, scn)]
    want = doc.get("violation_class")
    print("replay: property=%s hashseed=%s log_digest=%s (recorded %s)" % (
        pid, hs, res.get("log_digest"), doc.get("log_digest")))
    for v in res.get("violations", ())[:5]:
        print("  violation %s at %s: %s" % (prop.violation_class(v), v.get("where"), json.dumps(v.get("detail"))[:600]))
    if classes and (want is None or want in classes):
        print("VIOLATION property=%s replay=%s" % (pid, a.replay))
        return 1
    print("replay: no violation reproduced")
    return 0


# --------------------------------------------------------------------------- top level
def top(a):
    pid = a.prop
    prop = load_prop(pid)
    tier = a.tier
    t0 = time.time()
    runs = a.runs or int(os.environ.get("DSIM_RUNS", 0)) or (prop.QUICK_RUNS if tier == "quick" else prop.THOROUGH_RUNS)
    nhash = a.nhash or (2 if tier == "quick" else 4)
    workers_total = a.workers or (os.cpu_count() or 4)
    per = max(1, workers_total // nhash)
    budget = a.budget or (getattr(prop, "QUICK_BUDGET", 60) if tier == "quick" else getattr(prop, "THOROUGH_BUDGET", 900))
    print("dsim: property=%s tier=%s VERIF_SEED=%d runs<=%d hashseeds=%d workers=%d budget=%ss repo=%s" % (
        pid, tier, a.seed, runs, nhash, per * nhash, budget, REPO))
    sys.stdout.flush()
    # corpus (fixed regression scenarios) first
    corpus_dir = os.path.join(VERIF, "corpus", pid)
    corpus_n = 0
    corpus_viol = None
    if os.path.isdir(corpus_dir) and not a.no_corpus:
        for name in sorted(os.listdir(corpus_dir)):
            if not name.endswith(".json"):
                continue
            path = os.path.join(corpus_dir, name)
            doc = json.load(open(path))
            res = run_tool("--exec", path, doc.get("hashseed", 0))
            corpus_n += 1
            if "harness_error" in res:
                print("HARNESS-ERROR property=%s corpus=%s %s" % (pid, name, res["harness_error"][-800:]))
                return 2
            real = [v for v in res.get("violations", ()) if not prop.known_finding(v, doc["scenario"])]
            if real and corpus_viol is None:
                corpus_viol = (path, doc, real)
    subs = [spawn_sub(pid, a.seed, tier, runs, nhash, h, per, budget, keep_going=a.keep_going) for h in range(nhash)]
    results = []
    errors = []
    for h, p in enumerate(subs):
        r, err = collect_sub(p, budget + 300)
        if err:
            errors.append("hashseed %d: %s" % (h, err))
        else:
            r["hashseed"] = h
            results.append(r)
    if errors:
        for e in errors:
            print("HARNESS-ERROR property=%s %s" % (pid, e))
        return 2
    merged = merge(results)
    wall = time.time() - t0
    if a.keep_going:
        print("dsim: violating runs (keep-going mode): %d of %d" % (
            sum(r.get("violating_runs", 0) for r in results), merged["runs"]))
    known_doc = load_known()
    # ------------------------------------------------------------ violation handling
    status = 0
    viol = None
    for r in results:
        for v in r["violations"]:
            if viol is None or v["index"] < viol[0]["index"]:
                viol = (v, r["hashseed"])
    replay_path = None
    if corpus_viol is not None:
        path, doc, real = corpus_viol
        print("corpus scenario %s violates: %s" % (os.path.basename(path), prop.violation_class(real[0])))
        print("VIOLATION property=%s replay=%s" % (pid, path))
        status = 1
        replay_path = path
    elif viol is not None:
        v, hs = viol
        cls = prop.violation_class(v["violations"][0])
        os.makedirs(os.path.join(VERIF, "replays"), exist_ok=True)
        replay_path = os.path.join(VERIF, "replays", "%s-%d.json" % (pid, v["run_seed"]))
        doc = {"property": pid, "hashseed": hs, "verif_seed": a.seed, "index": v["index"], "run_seed": v["run_seed"],
               "tier": tier, "violation_class": cls, "scenario": v["scenario"], "violations": v["violations"][:3]}
        json.dump(doc, open(replay_path, "w"), indent=1)  # never sort: keyword order inside schemas is part of the scenario
        try:
            if not a.no_minimise:
                run_tool("--minimise", replay_path, hs, timeout=1200, extra=["--min-budget", str(a.min_budget)])
            res = run_tool("--exec", replay_path, hs)
            res2 = run_tool("--exec", replay_path, hs)
        except Exception as e:
            print("HARNESS-ERROR property=%s minimise/replay failed: %s" % (pid, str(e)[-1500:]))
            return 2
        classes = [prop.violation_class(x) for x in res.get("violations", ())]
        if cls not in classes or res.get("log_digest") != res2.get("log_digest"):
            print("HARNESS-ERROR property=%s violation %s of run_seed=%d did not reproduce deterministically in a fresh "
                  "interpreter (classes=%s digests=%s/%s); replay file kept at %s" % (
                      pid, cls, v["run_seed"], classes, res.get("log_digest"), res2.get("log_digest"), replay_path))
            return 2
        d = json.load(open(replay_path))
        print("violation class: %s   run_seed=%d index=%d hashseed=%d  (minimised with %s executions)" % (
            cls, v["run_seed"], v["index"], hs, d.get("minimiser_executions")))
        for x in d.get("violations", ())[:2]:
            print("  at %s op=%s: %s" % (x.get("where"), x.get("op"), json.dumps(x.get("detail"))[:1200]))
        print("VIOLATION property=%s replay=%s" % (pid, replay_path))
        status = 1
    for kf, n in sorted(merged["known"].items()):
        print("KNOWN-FINDING: property=%s %s (met %d times in this run)" % (pid, kf, n))
    if merged["harness_errors"]:
        for he in merged["harness_errors"][:3]:
            print("HARNESS-ERROR property=%s run_seed=%s index=%s %s" % (pid, he["run_seed"], he["index"], he["error"][-1200:]))
        status = status or 2
    if not merged["registry_pristine"]:
        print("HARNESS-ERROR property=%s a pool worker's global registries changed: isolation broken" % pid)
        status = status or 2
    # reach probes.  REQUIRED_PROBES are counted by the harness alone (faults it injects, switches it performs):
    # if one is stuck at zero the workload is broken -> HARNESS-ERROR.  EXPECTED_PROBES observe the library
    # (scopes pushed at a suspension point, ...): a correct library that is built differently may legitimately
    # never trip them, so a dead one is reported loudly but is not an alarm.
    dead = []
    if merged["runs"] >= 1000 and status == 0:
        for name in getattr(prop, "REQUIRED_PROBES", ()):
            if merged["stats"].get(name, 0) == 0:
                dead.append(name)
        quiet = [n for n in getattr(prop, "EXPECTED_PROBES", ()) if merged["stats"].get(n, 0) == 0]
        if quiet:
            print("WARNING property=%s reach probes at zero on this tree: %s (the states they count were not "
                  "observed; evidence coverage is weaker than usual)" % (pid, ", ".join(quiet)))
    if dead:
        print("HARNESS-ERROR property=%s reach probes stuck at zero: %s (workload no longer reaches the states the "
              "oracle needs)" % (pid, ", ".join(dead)))
        status = 2
    write_evidence(prop, pid, tier, a.seed, merged, wall, status, corpus_n, nhash, per * nhash, replay_path)
    print("dsim: %s runs=%d nontrivial_distinct=%d steps=%d wall=%.1fs (%.0f runs/h) status=%d" % (
        pid, merged["runs"], len(merged["nt_digests"]), merged["steps"], wall,
        merged["runs"] / max(wall, 1e-9) * 3600, status))
    return status


def merge(results):
    m = {"runs": 0, "nontrivial": 0, "steps": 0, "stats": {}, "nt_digests": set(), "scheds": set(), "states": set(),
         "harness_errors": [], "samples": [], "known": {}, "registry_pristine": True, "logsum": 0,
         "skipped_chunks": 0}
    for r in results:
        m["runs"] += r["runs"]
        m["nontrivial"] += r["nontrivial"]
        m["steps"] += r["steps"]
        m["logsum"] = (m["logsum"] + r["logsum"]) % (1 << 64)
        m["skipped_chunks"] += r.get("skipped_chunks", 0)
        for k, v in r["stats"].items():
            m["stats"][k] = m["stats"].get(k, 0) + v
        for k, v in r["known"].items():
            m["known"][k] = m["known"].get(k, 0) + v
        m["nt_digests"].update(r["nt_digests"])
        m["scheds"].update(r["scheds"])
        m["states"].update(r["states"])
        m["harness_errors"].extend(r["harness_errors"])
        m["samples"].extend(r["samples"][:2])
        m["registry_pristine"] = m["registry_pristine"] and r["registry_pristine"]
    return m


def write_evidence(prop, pid, tier, seed, m, wall, status, corpus_n, nhash, workers, replay_path):
    faults = dict((k[6:], v) for k, v in m["stats"].items() if k.startswith("fault:"))
    probes = dict((k, v) for k, v in m["stats"].items() if not k.startswith("fault:"))
    ev = {
        "property_id": pid, "tier": tier, "seed": seed, "level": "exploration",
        "coverage": {
            "evaluations": m["runs"],
            "distinct_nontrivial": len(m["nt_digests"]),
            "rule": prop.RULE,
            "samples": m["samples"][:3],
            "exhaustive": False,
            "technique": "deterministic simulation with fault injection (seeded search over histories, schedules and fault plans)",
            "runs_per_hour": int(m["runs"] / max(wall, 1e-9) * 3600),
            "seeds_per_hour": int(m["runs"] / max(wall, 1e-9) * 3600),
            "simulated_time": {"unit": "logical steps (operations + iterator next() steps" +
                               (" + traced source lines" if pid == "C18" else "") +
                               "); the library has no clock, timer or sleep, so there is no simulated wall time",
                               "steps": m["steps"]},
            "faults_fired": faults,
            "reach_probes": probes,
            "distinct_schedules": len(m["scheds"]),
            "distinct_abstract_states": len(m["states"]),
            "state_measure": getattr(prop, "STATE_MEASURE", "hash of (operation kind, outcome kind, number of errors, store key set) per step"),
            "corpus_scenarios_replayed": corpus_n,
            "hashseeds": nhash, "workers": workers,
            "batch_digest": "%016x" % m["logsum"],
            "chunks_not_started_because_of_budget_or_violation": m["skipped_chunks"],
            "components": getattr(prop, "COMPONENTS", {
                "real": ["every module of jsonschema/ under /repo (imported from the working tree)"],
                "stubs": ["network transport (handlers, urlopen, requests)", "custom format/type/keyword behaviours",
                          "garbage-collection schedule (gc.disable + explicit collect)"]}),
            "known_findings_met": m["known"],
            "replay": replay_path,
        },
        "assumptions": getattr(prop, "ASSUMPTIONS", [
            "sampling, not proof: a clean batch is evidence only for the histories explored",
            "CPython reference counting; delayed finalisation is modelled by the gc seam",
        ]),
        "wall_s": round(wall, 2),
        "violations": 1 if status == 1 else 0,
    }
    os.makedirs(os.path.join(VERIF, "evidence"), exist_ok=True)
    json.dump(ev, open(os.path.join(VERIF, "evidence", pid + ".json"), "w"), indent=1, sort_keys=True)


def main(argv=None):
    ap = argparse.ArgumentParser()
    ap.add_argument("prop", nargs="?")
    ap.add_argument("--tier", default=os.environ.get("VERIF_TIER", "quick"), choices=["quick", "thorough"])
    ap.add_argument("--seed", type=int, default=int(os.environ.get("VERIF_SEED", "0") or 0))
    ap.add_argument("--runs", type=int, default=0)
    ap.add_argument("--workers", type=int, default=0)
    ap.add_argument("--budget", type=float, default=0)
    ap.add_argument("--nhash", type=int, default=0)
    ap.add_argument("--hashidx", type=int, default=0)
    ap.add_argument("--sub")
    ap.add_argument("--gen")
    ap.add_argument("--exec")
    ap.add_argument("--minimise")
    ap.add_argument("--min-budget", type=int, default=400)
    ap.add_argument("--replay")
    ap.add_argument("--keep-going", action="store_true")
    ap.add_argument("--no-minimise", action="store_true")
    ap.add_argument("--no-corpus", action="store_true")
    a = ap.parse_args(argv)
    try:
        if a.sub:
            a.prop = a.sub
            return sub_main(a)
        if a.gen:
            prop = load_prop(a.gen)
            ds = [digest(scenario_for(prop, a.seed, i, a.tier)) for i in range(a.runs or 40)]
            sys.stdout.write("\n@@RESULT@@" + json.dumps(ds) + "\n")
            return 0
        if a.exec:
            return exec_scenario_file(a)
        if a.minimise:
            return minimise_file(a)
        if a.replay:
            return replay(a)
        if a.prop == "selftest":
            from dsim import selftest
            return selftest.main(a)
        if a.prop not in PROPS:
            ap.error("property must be one of %s or 'selftest'" % PROPS)
        return top(a)
    except SystemExit:
        raise
    except BaseException:
        traceback.print_exc()
        print("HARNESS-ERROR uncaught exception in driver")
        return 2
