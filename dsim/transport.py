"""Simulated transport: scheme handlers, urlopen and `requests`, with fault timelines.

The library's only I/O is RefResolver.resolve_remote: handlers[scheme](uri),
requests.get(uri).json(), urlopen(uri).read().  All three are served here from a
fixed URL -> document map; every call is logged; faults follow *monotone*
timelines ("the first f calls for this URL fail, later ones succeed") so that a
cache can never legitimately change an outcome.
"""
import copy
import json
import sys
import types
import urllib.error
from urllib.parse import urlsplit


class SimFault(Exception):
    """A caller-defined exception type (not OSError/ValueError/...)."""


class NetworkTouched(AssertionError):
    pass


EXC = {
    "OSError": OSError,
    "ValueError": ValueError,
    "KeyError": KeyError,
    "RuntimeError": RuntimeError,
    "SimFault": SimFault,
    "URLError": urllib.error.URLError,
    "TypeError": TypeError,
    "LookupError": LookupError,
    # what real networks raise: connection-type and time-out errors (subclasses of OSError)
    "ConnectionResetError": ConnectionResetError,
    "ConnectionRefusedError": ConnectionRefusedError,
    "TimeoutError": TimeoutError,
    "BrokenPipeError": BrokenPipeError,
}

SEAL_LOG = []


def _sealed_urlopen(uri, *a, **k):
    SEAL_LOG.append(uri)
    raise urllib.error.URLError("dsim: network is sealed (no transport installed) for %r" % (uri,))


def seal_network():
    """Make the real network unreachable from this process by construction."""
    import jsonschema.validators as V
    V.urlopen = _sealed_urlopen
    sys.modules["requests"] = None  # `import requests` -> ImportError


def norm(uri):
    return urlsplit(uri).geturl()


class _Body(object):
    """A response body as urlopen() gives it: read() returns everything that is left, read(n) at most n bytes -
    and, like a socket, possibly fewer (`piece`), so that a multi-byte character may straddle two reads."""

    def __init__(self, data, read_error=False, piece=0, headers=None):
        self._data = data
        self._pos = 0
        self._read_error = read_error
        self._piece = piece
        self.headers = dict(headers or {"Content-Type": "application/json"})      # what the server said
        self.status = 200

    def info(self):
        return self.headers

    def getheader(self, name, default=None):
        return self.headers.get(name, default)

    def read(self, size=-1):
        if self._read_error and (self._pos > 0 or size is None or size < 0 or not self._data):
            raise OSError("dsim: connection reset while reading body")
        if size is None or size < 0:
            out = self._data[self._pos:]
        else:
            n = min(size, self._piece) if self._piece else size
            out = self._data[self._pos:self._pos + n]
        self._pos += len(out)
        return out

    def close(self):
        pass

    def __enter__(self):
        return self

    def __exit__(self, *a):
        return False


class _Resp(object):
    """A requests.Response as far as callers of .json() can tell; .url is the FINAL url (after redirects and
    requests' own URL preparation), which need not be the one that was asked for."""

    def __init__(self, thunk, url=None, headers=None):
        self._thunk = thunk
        self.url = url
        self.status_code = 200
        self.history = []
        self.headers = dict(headers or {"Content-Type": "application/json"})

    def json(self):
        return self._thunk()


def _wire(u):
    """u with the characters that may not appear in a URI percent-encoded (UTF-8); nothing else changes."""
    out = []
    for ch in u:
        if ch in ' "<>\\^`{|}' or ord(ch) > 126 or ord(ch) < 33:
            out.append("".join("%%%02X" % b for b in ch.encode("utf-8")))
        else:
            out.append(ch)
    return "".join(out)


class SimTransport(object):
    """One simulated network; owned by one resolver (or shared, if the scenario says so)."""

    def __init__(self, docs, plan=None, forbidden=()):
        self.docs = dict((norm(u), d) for u, d in docs.items())
        # a server sees the wire form: a client may send characters that are illegal in a URI percent-encoded
        # (space, non-ASCII, "<>{}|\\^`) - that is the same resource.  Existing %xx escapes and reserved characters
        # are NOT touched (p%2Fq and p/q stay different resources).
        self.alias = dict((_wire(u), u) for u in self.docs if _wire(u) != u)
        self.plan = dict((norm(u), dict(p)) for u, p in (plan or {}).items())
        self.forbidden = set(norm(u) for u in forbidden)
        self.calls = {}        # url -> number of calls so far
        self.ok = {}           # url -> number of successful calls
        self.log = []          # (route, url, outcome)
        self.fired = {}        # fault kind -> count
        self.forbidden_hits = []

    # -- bookkeeping -----------------------------------------------------
    def set_calls(self, calls):
        self.calls = dict(calls)

    def _enter(self, route, uri):
        u = norm(uri)
        if u not in self.docs and u in self.alias:
            u = self.alias[u]
            self._fire("illegal_characters_arrived_percent_encoded")
        if u in self.forbidden:
            self.forbidden_hits.append((route, u))
        n = self.calls.get(u, 0)
        self.calls[u] = n + 1
        p = self.plan.get(u)
        failing = bool(p) and n < p.get("fail_first", 0)
        return u, p, failing

    def _fire(self, kind):
        self.fired[kind] = self.fired.get(kind, 0) + 1

    def _serve(self, route, u):
        if u not in self.docs:
            self.log.append((route, u, "missing"))
            self._fire("missing_doc")
            raise urllib.error.URLError("dsim: no such document %r" % (u,))
        self.ok[u] = self.ok.get(u, 0) + 1
        self.log.append((route, u, "ok"))
        return copy.deepcopy(self.docs[u])

    # -- route 1: scheme handlers -----------------------------------------
    def handler(self, uri):
        u, p, failing = self._enter("handler", uri)
        if failing:
            self.log.append(("handler", u, "fail"))
            self._fire("handler_fail_first")
            if p.get("silent"):
                raise EXC[p.get("exc", "OSError")]()           # an exception whose str() is empty
            raise EXC[p.get("exc", "OSError")]("dsim: handler fault for %r" % (u,))
        doc = self._serve("handler", u)
        if p and p.get("returns"):
            self._fire("handler_returned_text")
            text = json.dumps(doc)
            return text if p["returns"] == "str" else text.encode("utf-8")
        return doc

    def handler_alt(self, uri):
        """A second handler function for the same network (the user replaces a handler later on): same answers,
        logged under its own route name so that a stale first handler is told apart."""
        n0 = len(self.log)
        try:
            return self.handler(uri)
        finally:
            self.log[n0:] = [("handler2",) + tuple(e[1:]) for e in self.log[n0:]]

    # -- route 2: urllib ----------------------------------------------------
    def urlopen(self, uri, *a, **k):
        u, p, failing = self._enter("urlopen", uri)
        kind = p.get("kind", "net_error") if failing else None
        if kind in (None, "handler"):
            kind = None if not failing else "net_error"
        if kind == "net_error":
            self.log.append(("urlopen", u, "fail"))
            self._fire("net_error")
            if p.get("exc") in ("ConnectionResetError", "ConnectionRefusedError", "TimeoutError", "BrokenPipeError"):
                # as urllib reports them: URLError whose .reason is the OS-level exception
                raise urllib.error.URLError(EXC[p["exc"]]("dsim: %s for %r" % (p["exc"], u)))
            raise urllib.error.URLError("dsim: connection refused for %r" % (u,))
        if kind == "net_read_error":
            self.log.append(("urlopen", u, "fail"))
            self._fire("net_read_error")
            return _Body(b"", read_error=True)
        doc = self._serve("urlopen", u) if kind is None else None
        piece = (p or {}).get("piece", 0)
        if kind is None:
            return _Body(json.dumps(doc, ensure_ascii=False).encode("utf-8"), piece=piece, headers=(p or {}).get("headers"))
        self.log.append(("urlopen", u, "fail"))
        self._fire(kind)
        if u in self.docs:
            good = json.dumps(self.docs[u], ensure_ascii=False).encode("utf-8")
        else:
            good = b'{"definitions": {}}'
        if kind == "net_short_body":
            cut = p.get("cut", 1) % max(1, len(good) - 1)
            multi = [i for i, b in enumerate(good) if b >= 0xC0]
            if multi and p.get("cut", 0) % 2:
                cut = multi[p["cut"] % len(multi)] + 1      # the body ends INSIDE a multi-byte character
                self._fire("body_cut_inside_a_character")
            return _Body(good[:cut], piece=piece)  # a strict prefix: never a valid JSON document for an object
        if kind == "net_bad_utf8":
            return _Body(b'{"a": "\xff\xfe"}')
        if kind == "net_not_json":
            return _Body(b"<html><body>502 Bad Gateway</body></html>")
        raise AssertionError("unknown net fault kind %r" % (kind,))

    # -- route 3: requests --------------------------------------------------
    def requests_get(self, uri, *a, **k):
        t = self
        u, p, failing = t._enter("requests", uri)
        kind = p.get("kind", "net_error") if failing else None
        if failing and kind in ("net_error", "net_read_error", "handler", None):
            t.log.append(("requests", u, "fail"))
            t._fire("net_error")
            if p.get("exc") in ("ConnectionResetError", "ConnectionRefusedError", "TimeoutError", "BrokenPipeError"):
                raise EXC[p["exc"]]("dsim: requests, %s for %r" % (p["exc"], u))
            raise OSError("dsim: requests.ConnectionError for %r" % (u,))
        if failing:
            t.log.append(("requests", u, "fail"))
            t._fire(kind)

            def bad():
                raise ValueError("dsim: body is not JSON (%s)" % kind)
            return _Resp(bad, url=(p or {}).get("final_url") or uri)
        doc = t._serve("requests", u)
        if (p or {}).get("final_url"):
            t._fire("response_url_differs_from_request")
        return _Resp(lambda: doc, url=(p or {}).get("final_url") or uri, headers=(p or {}).get("headers"))

    def requests_module(self):
        mod = types.ModuleType("requests")
        mod.get = self.requests_get
        return mod

    # -- installation ---------------------------------------------------------
    def install_global(self, with_requests):
        """Patch the module-level seams (process is a forked child: no undo needed)."""
        import jsonschema.validators as V
        V.urlopen = self.urlopen
        sys.modules["requests"] = self.requests_module() if with_requests else None


class Router(object):
    """The module-level urlopen/requests seams, shared by several SimTransports.

    The library offers one global urlopen and one global `requests`; when a run
    has several resolvers that must each see their *own* network through those
    seams, the harness routes by 'current actor' - a thread-local set by the
    scheduler (never by library code), with a process-wide default.
    """

    def __init__(self):
        import threading
        self.tls = threading.local()
        self.default = None
        self.known = {}
        self.sticky_reroutes = 0

    def set(self, transport):
        self.tls.t = transport
        self.known[id(transport)] = transport

    def cur(self):
        t = getattr(self.tls, "t", None) or self.default
        if t is None:
            raise urllib.error.URLError("dsim: no simulated network selected")
        return t

    def urlopen(self, uri, *a, **k):
        return self.cur().urlopen(uri, *a, **k)

    def requests_get(self, uri, *a, **k):
        return self.cur().requests_get(uri, *a, **k)

    def session_get(self, session, uri, *a, **k):
        """A request made through a requests.Session: the simulated server pins a session to the network view
        (transport) that answered its first request and tells it so in a cookie - a sticky-version registry.  A
        session object that outlives one resolver therefore drags the first resolver's documents along."""
        t = self.cur()
        pinned = self.known.get(session.cookies.get("dsim-sticky"))
        if pinned is not None and pinned is not t:
            self.sticky_reroutes += 1
            t = pinned
        session.cookies.setdefault("dsim-sticky", id(t))
        return t.requests_get(uri, *a, **k)

    def install(self, with_requests):
        import jsonschema.validators as V
        V.urlopen = self.urlopen
        if with_requests:
            router = self
            mod = types.ModuleType("requests")
            mod.get = self.requests_get         # (a throw-away session per call: no state)

            class Session(object):
                def __init__(self):
                    self.cookies = {}
                    self.headers = {}

                def get(self, uri, *a, **k):
                    return router.session_get(self, uri, *a, **k)

                def close(self):
                    pass

                def __enter__(self):
                    return self

                def __exit__(self, *exc):
                    return False
            mod.Session = mod.session = Session
            sys.modules["requests"] = mod
        else:
            sys.modules["requests"] = None
        return self
