"""Actors (a validator with its own resolver, transport and collaborators) and operations.

Everything here runs inside a forked child.  Oracles read public API only;
private attributes are read through getattr(..., None) *only* as reach probes.
"""
import copy
import functools
import gc
import re
from urllib.parse import urljoin

from dsim.behaviours import Collab, build_class, build_format_checker
from dsim.canon import canon_error, typed, jdump, fast
from dsim.transport import SimTransport
from dsim.world import METASCHEMA_IDS, idkw_of

_HEX = re.compile(r"0x[0-9a-fA-F]+")


GC_GUARD = {"depth": 0}


def guarded_collect():
    """gc.collect() during which the C18 thread scheduler does not switch threads.

    CPython's collector is not re-entrant: if one thread is pre-empted in the middle of a collection (inside a
    finaliser that runs traced library code), gc.collect() in every other thread returns at once WITHOUT
    collecting.  An actor that relies on "the collector ran before my next operation" would then re-enter a
    validator whose abandoned iterator is still suspended - the excluded hazard, produced by the harness.
    """
    GC_GUARD["depth"] += 1
    try:
        return gc.collect()
    finally:
        GC_GUARD["depth"] -= 1


class ConsumerDied(Exception):
    pass


class BodyRaised(Exception):
    pass


def scrub(s):
    return _HEX.sub("0xX", s)


def canon_exc(x):
    """Canonical rendering of an exception; call ONLY inside the except block."""
    try:
        text = scrub(str(x))[:500]
    except RecursionError:
        text = "<message not printable: value nested too deeply>"
    out = {"cls": type(x).__name__, "msg": text}
    try:
        from jsonschema.exceptions import RefResolutionError
        if isinstance(x, RefResolutionError):
            out["rre"] = True           # "surfaces as RefResolutionError": a subclass qualifies
    except Exception:
        pass
    if hasattr(x, "message") and hasattr(x, "schema_path"):
        out["err"] = canon_error(x)
    return out


def _touchy(v):
    """Every JSON object as a collections.defaultdict whose missing keys materialise on a mere READ (a recursive
    defaultdict tree is a common way to build documents): to the library it is a dict, i.e. an "object"; code
    that subscripts a key it has not tested for inserts that key - validation would modify the instance."""
    import collections
    if isinstance(v, list):
        return [_touchy(x) for x in v]
    if isinstance(v, dict):
        d = collections.defaultdict(_touchy_factory)
        for k, x in v.items():
            d[k] = _touchy(x)
        return d
    return v


class _TouchyFactory(object):
    """default_factory with a fixed repr: error messages print the instance, and a function's repr carries an
    address that differs from process to process (found by the determinism self-test)."""

    def __call__(self):
        import collections
        return collections.defaultdict(_touchy_factory)

    def __repr__(self):
        return "<touchy>"


_touchy_factory = _TouchyFactory()


def materialise(value, world):
    out = _materialise(value, world)
    if world.get("touchy_instances"):
        out = _touchy(out)
    return out


def _materialise(value, world):
    """A fresh copy of an instance; in `decimal_floats` worlds every float arrives as decimal.Decimal
    (what json.loads(..., parse_float=Decimal) gives a caller): numbers are numbers.Number to the library."""
    if isinstance(value, dict) and list(value) == ["$deep"]:
        spec = value["$deep"]
        cur = copy.deepcopy(spec["unit"])
        for _ in range(spec["n"]):              # iterative: no harness recursion proportional to the depth
            new = copy.deepcopy(spec["unit"])
            node = new
            for key in spec["path"][:-1]:
                node = node[key]
            node[spec["path"][-1]] = cur
            cur = new
        return cur
    if not world.get("decimal_floats"):
        return copy.deepcopy(value)
    from decimal import Decimal

    def conv(v):
        if isinstance(v, float):
            return Decimal(repr(v))
        if isinstance(v, list):
            return [conv(x) for x in v]
        if isinstance(v, dict):
            return dict((k, conv(x)) for k, x in v.items())
        return v
    return conv(value)


def in_other_thread(fn, actor=None):
    """Run fn() to completion in a helper thread (sequentially: started and joined at once).  A caller may hand
    an iterator to another thread; nothing here is concurrent."""
    import threading
    box = {}

    def body():
        try:
            if actor is not None:
                actor.activate()        # the simulated network is selected per thread
            box["r"] = fn()
        except BaseException as e:
            box["e"] = e
    th = threading.Thread(target=body, name="dsim-helper")
    th.start()
    th.join()
    if "e" in box:
        raise box["e"]
    return box.get("r")


def default_cfg(rng=None, **over):
    cfg = {"cache_remote": True, "urljoin_cache": "lru", "remote_cache": "lru",
           "handler_schemes": ["http", "https", "sim"], "base_mode": "from_schema",
           "faults": {}, "use_store": True}
    cfg.update(over)
    return cfg


def gen_cfg(rng, world, fault_rate=0.35):
    """Draw a resolver configuration and a transport fault plan (pure)."""
    caches = ["lru", "lru", "pass", "lru1", "lru2"]
    schemes = rng.choice([["http", "https", "sim", "urn"], ["http", "https", "sim"], ["sim", "urn"], ["http"], []])
    faults = {}
    for u in world["docs"]:
        if rng.random() < fault_rate:
            faults[u] = {"fail_first": rng.choice([1, 1, 2, 3, 99]),
                         "exc": rng.choice(["OSError", "ValueError", "KeyError", "SimFault", "URLError", "ConnectionResetError",
                                            "TimeoutError", "ConnectionRefusedError", "BrokenPipeError"]),
                         "kind": rng.choice(["net_error", "net_short_body", "net_bad_utf8",
                                             "net_not_json", "net_read_error"]),
                         "cut": rng.randrange(0, 64), "silent": rng.random() < 0.15}
        if rng.random() < 0.2:
            # the body arrives in small pieces when it is read with a size (as from a socket)
            faults.setdefault(u, {"fail_first": 0, "exc": "OSError", "kind": "net_error", "cut": 0, "silent": False})
            faults[u]["piece"] = rng.choice([1, 2, 3, 5, 7, 64])
        if rng.random() < 0.15:
            # the server redirects (or the HTTP client normalises the URL): the response reports another final URL
            faults.setdefault(u, {"fail_first": 0, "exc": "OSError", "kind": "net_error", "cut": 0, "silent": False})
            faults[u]["final_url"] = rng.choice([u + "/", u.replace("http://", "https://") if u.startswith("http://") else u + "?r=1",
                                                 "http://mirror.test/moved/" + u.rsplit("/", 1)[-1]])
        if rng.random() < 0.2:
            # what the server says ABOUT the document (the resolver's own cache_remote decides, not HTTP caching headers)
            faults.setdefault(u, {"fail_first": 0, "exc": "OSError", "kind": "net_error", "cut": 0, "silent": False})
            faults[u]["headers"] = rng.choice([
                {"Content-Type": "application/json", "Cache-Control": "private, no-store, max-age=0"},
                {"Content-Type": "application/schema+json; charset=utf-8", "Cache-Control": "no-cache", "Pragma": "no-cache",
                 "Expires": "0"},
                {"Content-Type": "text/plain; charset=iso-8859-1", "Vary": "*", "ETag": "\"v1\""},
                {"content-type": "application/json", "cache-control": "NO-STORE", "Set-Cookie": "v=1"}])
        if rng.random() < 0.05:
            # a handler that hands back the raw JSON TEXT instead of a parsed document (a frequent mistake): the
            # library stores and uses what it is given - consistently, whatever the validator did before
            faults.setdefault(u, {"fail_first": 0, "exc": "OSError", "kind": "net_error", "cut": 0, "silent": False})
            faults[u]["returns"] = rng.choice(["str", "bytes"])
    return {"cache_remote": rng.random() < 0.65, "urljoin_cache": rng.choice(caches),
            "remote_cache": rng.choice(caches), "handler_schemes": schemes,
            "base_mode": rng.choice(["from_schema", "explicit", "from_schema", "explicit", "above"]),
            "store_kind": rng.choice(["dict", "dict", "pairs", "uridict"]),
            "faults": faults, "use_store": True}


def _splittable(url):
    """("http://host/", "dir/file.json") for an http URL with at least two path segments, else None."""
    from urllib.parse import urlsplit
    u = urlsplit(url)
    if u.scheme not in ("http", "https") or u.query or u.fragment:
        return None
    segs = [x for x in u.path.split("/") if x]
    if len(segs) < 2:
        return None
    return "%s://%s/" % (u.scheme, u.netloc), "/".join(segs)


class Actor(object):
    def __init__(self, world, cfg, router, calls=None, shared_from=None, store_from=None, defer=False, class_from=None, fc_from=None):
        from jsonschema import RefResolver
        self.world = world
        self.cfg = cfg
        self.router = router
        self.collab = Collab(world.get("triggers"))
        self.explicit_base = None
        draft = world["draft"]
        store_urls = list(world.get("store_docs", ())) if cfg.get("use_store", True) else []
        default_resolver = bool(cfg.get("default_resolver"))
        if default_resolver:
            # Validator(schema) with NO resolver argument: the library builds RefResolver.from_schema(schema)
            # itself - no store documents, no handlers (documents come through the urlopen / requests seam)
            store_urls = []
        forbidden = store_urls + sorted(METASCHEMA_IDS.values())
        self.transport = SimTransport(world["docs"], plan=cfg.get("faults"), forbidden=forbidden)
        if calls:
            self.transport.set_calls(calls)
        if class_from is not None:
            self.cls = class_from.cls          # several validator objects of ONE (derived) class, as everybody has
        elif shared_from is not None and cfg.get("share_class"):
            self.cls = shared_from.cls
        else:
            self.cls = build_class(draft, world.get("custom"), self.collab)
        if fc_from is not None:
            self.fc = fc_from.fc               # one FormatChecker object may serve several validators
        elif shared_from is not None and cfg.get("share_format_checker"):
            self.fc = shared_from.fc
        elif class_from is not None and cfg.get("share_format_checker_with_class_donor"):
            self.fc = class_from.fc
        else:
            self.fc = build_format_checker(world.get("formats"), self.collab)
        if shared_from is None:
            root = copy.deepcopy(world["root"])
            keys = world.get("store_keys") or {}
            store = dict((keys.get(u, u), copy.deepcopy(world["docs"][u])) for u in store_urls)
        else:
            # same schema *object* and same read-only store documents, separate resolver
            root = shared_from.root
            keys = world.get("store_keys") or {}
            store = dict((keys.get(u, u), shared_from.resolver.store[u]) for u in store_urls)
        self.root = root
        above = None
        idkw = idkw_of(draft)
        if (shared_from is None and cfg.get("base_mode") == "above" and not default_resolver and isinstance(root, dict)
                and isinstance(root.get(idkw), str) and _splittable(root[idkw])):
            # the resolver's base is a directory ABOVE the schema and the schema's own id is RELATIVE to it
            # (RefResolver(base_uri="http://host/", referrer={"$id": "dir/main.json", ...})): entering the
            # root pushes a scope that differs from the base, and joining that id twice gives a wrong URL
            full = root[idkw]
            above, root[idkw] = _splittable(full)
            store.setdefault(full, root)    # the caller also lists the schema under its full URL
            self.above_full = full
        elif shared_from is not None and getattr(shared_from, "above_full", None):
            self.above_full = shared_from.above_full
            store.setdefault(self.above_full, root)
        sk = cfg.get("store_kind", "dict")
        if sk == "pairs":
            store = list(store.items())                  # store= accepts anything dict.update() accepts
        elif sk == "uridict":
            from jsonschema._utils import URIDict
            fresh_store = URIDict()
            for k_, v_ in store.items():
                fresh_store[k_] = v_
            store = fresh_store
        if store_from is not None:
            # the caller hands over ANOTHER resolver's public `.store` object as store= (the documented way to
            # seed a resolver with documents): the new resolver must take the documents, not the object
            store = store_from.resolver.store
        handlers = dict((s, self.transport.handler) for s in cfg.get("handler_schemes", ()))
        holder = []

        def rfu(url):
            return holder[0].resolve_from_url(url)

        def mk(kind, fn):
            if kind == "lru":
                return None
            if kind == "pass":
                return fn
            if kind == "lru1":
                return functools.lru_cache(1)(fn)
            if kind == "lru2":
                return functools.lru_cache(2)(fn)
            raise KeyError(kind)
        idkw = idkw_of(draft)
        if default_resolver:
            mode = "default"
        elif shared_from is not None and shared_from.explicit_base is not None:
            self.explicit_base = shared_from.explicit_base
            mode = "explicit"
        elif (shared_from is None and cfg.get("base_mode") == "explicit"
                and isinstance(root, dict) and root.get(idkw)):
            self.explicit_base = root.pop(idkw)
            mode = "explicit"
        elif above is not None:
            self.explicit_base = above
            mode = "explicit"
        else:
            mode = "from_schema"

        def construct():
            """(resolver, validator) built the way this actor's user builds them - callable again later
            (operation `rebuild`: the user constructs a new validator object for the same schema)."""
            kwargs = dict(store=store, cache_remote=cfg.get("cache_remote", True), handlers=handlers,
                          urljoin_cache=mk(cfg.get("urljoin_cache", "lru"), urljoin),
                          remote_cache=mk(cfg.get("remote_cache", "lru"), rfu))
            if mode == "default":
                validator = self.cls(root, format_checker=self.fc)
                resolver = validator.resolver
            else:
                if mode == "explicit":
                    resolver = RefResolver(self.explicit_base, root, **kwargs)
                else:
                    resolver = RefResolver.from_schema(root, id_of=self.cls.ID_OF, **kwargs)
                validator = self.cls(root, resolver=resolver, format_checker=self.fc)
            holder[:] = [resolver]
            return resolver, validator
        self._construct = construct
        self._rebuildable = store_from is None
        self.pending_cycle = False   # an abandoned iterator may still be suspended (cyclic drop)
        self.probes = {}
        self.root0 = fast(root)
        self.constructed = False
        if not defer:
            self.finish_construction()

    def finish_construction(self):
        """Build resolver and validator (library constructors) and take the baseline observations.  Normally part of
        __init__; with defer=True the actor's own thread does it as the first step of its program, so that
        construction, too, runs under the scheduler."""
        if self.constructed:
            return
        self.constructed = True
        self.resolver, self.validator = self._construct()
        resolver = self.resolver
        # further validators that share this resolver (used sequentially; C15: fetch counts are per resolver)
        self.validators = [self.validator] + [
            self.cls({"$ref": r}, resolver=resolver, format_checker=self.fc) for r in self.cfg.get("extra_validators", ())]
        self.scope0 = resolver.resolution_scope
        self.install_depth_counter()
        self.store0 = self.store_snapshot()
        self.store_keys0 = sorted(self.store0)

    def rebuild(self):
        """The user throws the validator object away and constructs a new one for the same schema object, store
        documents, handlers and cache functions (library constructors run here, under whatever scheduler is on)."""
        if not self._rebuildable:
            return False
        self.resolver, self.validator = self._construct()
        self.validators = [self.validator] + [
            self.cls({"$ref": r}, resolver=self.resolver, format_checker=self.fc)
            for r in self.cfg.get("extra_validators", ())]
        self.scope0 = self.resolver.resolution_scope
        self.install_depth_counter()
        self.store0 = self.store_snapshot()
        self.store_keys0 = sorted(self.store0)
        self.pending_cycle = False
        return True

    # ---- observation helpers -------------------------------------------
    def store_snapshot(self):
        out = {}
        st = self.resolver.store
        for k in list(st):
            try:
                out[k] = fast(st[k])
            except KeyError:
                out[k] = "<key listed but not readable>"   # observation must not crash the harness
        return out

    def install_depth_counter(self):
        """Count push_scope/pop_scope calls through the resolver's *public* methods (instance-level
        pass-through wrappers), so that reach probes do not depend on private attribute names."""
        self._depth = None
        r = self.resolver
        try:
            push, pop = r.push_scope, r.pop_scope
            box = [1]

            def push_scope(*a, **k):
                r_ = push(*a, **k)
                box[0] += 1                 # only counted once it has happened (push may die of stack exhaustion)
                return r_

            def pop_scope(*a, **k):
                r_ = pop(*a, **k)
                box[0] -= 1
                return r_
            r.push_scope = push_scope
            r.pop_scope = pop_scope
            self._depth = box
        except Exception:
            self._depth = None

    def depth(self):
        """Reach probe only: number of scopes currently pushed (1 = just the base)."""
        if getattr(self, "_depth", None) is not None:
            return self._depth[0]
        if getattr(self, "resolver", None) is None:
            return 1                      # (not built yet, or being built right now: nothing pushed)
        st = getattr(self.resolver, "_scopes_stack", None)      # fallback: private read
        return len(st) if st is not None else -1

    def probe(self, name, n=1):
        self.probes[name] = self.probes.get(name, 0) + n

    def activate(self):
        self.router.set(self.transport)

    # ---- invariants -----------------------------------------------------
    def scope_now(self):
        try:
            return self.resolver.resolution_scope
        except Exception as x:      # e.g. an emptied scope stack: the observation itself is the symptom
            return "<resolution_scope raises %s>" % type(x).__name__

    def check_invariants(self, where, scope=True, ended_in_exception=False):
        """Return list of violation dicts (oracle ids are stable strings).

        ended_in_exception: the operation's *consumer* died (ErrorTree(...) raised, a user
        collaborator raised, ...).  The dead consumer's frames can then sit in a reference cycle
        that the library and the interpreter build themselves (ValidationError.cause ->
        traceback -> frame chain -> the consumer's frame -> its local holding the iterator), so
        the abandoned iterator is *still suspended* until the memory manager runs.  That is the
        cyclic-drop case of the gc seam, not a state the property speaks about ("whenever no
        error iterator of that validator is suspended"): the simulated collector runs first.
        """
        out = []
        if scope and not self.pending_cycle:
            if self.depth() > 1:
                # diagnostic probe only (private read): something is still pushed although the public
                # resolution_scope may happen to look right (a leaked scope equal to the base)
                self.probe("scope_stack_deeper_than_base_after_op")
            now = self.scope_now()
            if now != self.scope0 and ended_in_exception:
                guarded_collect()
                now = self.scope_now()
                if now == self.scope0:
                    self.probe("scope_restored_only_after_gc_of_dead_consumer")
            if now != self.scope0:
                out.append({"oracle": "scope-not-restored", "where": where,
                            "detail": {"expected": self.scope0, "got": now}})
        if fast(self.root) != self.root0:
            out.append({"oracle": "schema-mutated", "where": where, "detail": {}})
        snap = self.store_snapshot()
        for k, v in self.store0.items():
            if k not in snap:
                out.append({"oracle": "store-document-lost", "where": where, "detail": {"key": k}})
            elif snap[k] != v:
                out.append({"oracle": "store-document-mutated", "where": where, "detail": {"key": k}})
        for k, v in snap.items():
            if k in self.store0:
                continue
            src = self.transport.docs.get(k)
            ret = (self.transport.plan.get(k) or {}).get("returns")
            ok_forms = [] if src is None else [fast(src)]
            if src is not None and ret:
                import json as _json
                text = _json.dumps(src)     # through its HANDLER this document arrives as text, and is stored as such
                ok_forms.append(fast(text if ret == "str" else text.encode("utf-8")))
            if src is not None and v not in ok_forms:
                out.append({"oracle": "store-document-mutated", "where": where, "detail": {"key": k}})
        return out


class GcAt(object):
    """Run the cyclic collector at the n-th traced source line of jsonschema code inside one operation.

    The real collector may run at any allocation; with correct code a collection in the middle of a
    validation changes nothing, so this 'fault' is always legal.  What it exposes: finalisers of
    abandoned-but-uncollected iterators (pending scope pops) landing in the middle of a later operation.
    """

    def __init__(self, actor, n):
        import os
        import jsonschema
        self.actor = actor
        self.n = n
        self.step = 0
        self.pkg = os.path.dirname(os.path.abspath(jsonschema.__file__)) + os.sep
        self.fired = False

    def tracer(self, frame, event, arg):
        if frame.f_code.co_filename.startswith(self.pkg):
            return self.local
        return None

    def local(self, frame, event, arg):
        if event == "line" and not self.fired:
            self.step += 1
            if self.step >= self.n:
                self.fired = True
                before = self.actor.depth()
                guarded_collect()
                self.actor.probe("fault:gc_inside_operation")
                if self.actor.depth() != before:
                    self.actor.probe("gc_inside_operation_changed_scope_stack")
        return self.local

    def __enter__(self):
        import sys
        self.prev = sys.gettrace()
        sys.settrace(self.tracer)
        return self

    def __exit__(self, *a):
        import sys
        sys.settrace(self.prev)
        return False


STACK_LIMIT = 400


class StackLimit(object):
    """Stack exhaustion as a fault, in a safe regime: the recursion limit is lowered only while library code is
    *running* (inside next() / a whole-validation call) and is back to normal whenever iterators are closed,
    dropped or collected.  Near the interpreter's real limits the cascade that finalises a chain of several
    hundred nested generators is itself fatal to CPython 3.12 ("Cannot recover from stack overflow"), with or
    without jsonschema; that regime says nothing about the library and is never entered."""

    def __init__(self, active):
        self.active = active

    def __enter__(self):
        if self.active:
            import sys
            self.old = sys.getrecursionlimit()
            sys.setrecursionlimit(STACK_LIMIT)
        return self

    def __exit__(self, *a):
        if self.active:
            import sys
            sys.setrecursionlimit(self.old)
        return False


class _NoCtx(object):
    def __enter__(self):
        return self

    def __exit__(self, *a):
        return False


class IterTask(object):
    """A live error iterator of one actor, steppable one next() at a time."""

    def __init__(self, actor, instance, validator=None, low_stack=False, schema=None):
        self.actor = actor
        self.low_stack = low_stack
        if schema is None:
            self.it = (validator or actor.validator).iter_errors(instance)
        else:
            self.it = (validator or actor.validator).iter_errors(instance, schema)
        self.errs = []
        self.done = False
        self.exc = None
        self.steps = 0

    def step(self):
        if self.done or self.it is None:
            return False
        self.steps += 1
        try:
            with StackLimit(self.low_stack):
                e = next(self.it)
        except StopIteration:
            self.done = True
            self.it = None
            return False
        except Exception as x:
            self.exc = canon_exc(x)
            self.done = True
            self.it = None
            return False
        self.errs.append(canon_error(e))
        e = None
        return True

    def take(self, k):
        for _ in range(k):
            if not self.step():
                break

    def suspended(self):
        return self.it is not None and not self.done and self.steps > 0

    def close(self):
        if self.it is not None:
            self.it.close()
            self.it = None

    def drop(self):
        self.it = None

    def drop_cyclic(self):
        if self.it is not None:
            cell = [self.it]
            cell.append(cell)
            self.it = None
            del cell

    def outcome(self):
        o = {"k": "errors", "errs": self.errs, "complete": self.done and self.exc is None}
        if self.exc is not None:
            o["exc"] = self.exc
        return o


def do_op(actor, op, instances):
    """Execute one operation on an actor; return its canonical outcome (a dict)."""
    v = actor.validators[op.get("v", 0) % len(actor.validators)]
    r = actor.resolver
    kind = op["op"]
    actor.activate()
    actor.collab.begin(op.get("collab"))
    inst = None
    deep = False
    if "inst" in op:
        spec = instances[op["inst"]]
        deep = isinstance(spec, dict) and list(spec) == ["$deep"]
        inst = materialise(spec, actor.world)
        inst0 = fast(inst)
    out = None
    ctx = GcAt(actor, op["gc_at"]) if op.get("gc_at") else _NoCtx()
    sub = None
    if op.get("sub") is not None and isinstance(actor.root, dict):
        defs = actor.root.get("definitions") or {}
        names = sorted(defs)
        if names:
            sub = defs[names[op["sub"] % len(names)]]    # validate against a SUBSCHEMA object of the root, explicitly
    try:
      with ctx:
          if kind == "is_valid" and op.get("elsewhere") == "whole":
              out = {"k": "bool", "v": bool(in_other_thread(lambda: v.is_valid(inst), actor))}
              actor.probe("whole_operation_on_another_thread")
          elif kind == "is_valid" and sub is not None:
              with StackLimit(deep):
                  out = {"k": "bool", "v": bool(v.is_valid(inst, sub))}
              actor.probe("explicit_subschema_argument")
          elif kind == "is_valid":
              with StackLimit(deep):
                  out = {"k": "bool", "v": bool(v.is_valid(inst))}
          elif kind == "exhaust":
              t = IterTask(actor, inst, v, low_stack=deep, schema=sub)
              t.take(10 ** 6)
              out = t.outcome()
          elif kind == "validate":
              with StackLimit(deep):
                  v.validate(inst)
              out = {"k": "none"}
          elif kind in ("take_close", "take_drop", "take_cycle"):
              t = IterTask(actor, inst, v, low_stack=deep, schema=sub)
              if sub is not None:
                  actor.probe("explicit_subschema_argument")
              if op["k"] == 0:
                  actor.probe("iterator_never_advanced")
              if op.get("elsewhere") == "start":
                  in_other_thread(lambda: t.take(1), actor)       # first step on another thread, the rest here
                  t.take(max(0, op["k"] - 1))
                  actor.probe("iterator_crossed_threads")
              else:
                  t.take(op["k"])
              d = actor.depth()
              if t.suspended():
                  actor.probe("abandon_suspended")
                  if d >= 2:
                      actor.probe("abandon_with_scopes_pushed")
                  if d >= 3:
                      actor.probe("abandon_with_2plus_scopes_pushed")
              if kind == "take_close" and op.get("elsewhere") == "finish":
                  in_other_thread(t.close, actor)                 # advanced here, closed on another thread
                  actor.probe("iterator_crossed_threads")
              elif kind == "take_close":
                  t.close()
              elif kind == "take_drop" and op.get("elsewhere") == "finish":
                  in_other_thread(t.drop, actor)
                  actor.probe("iterator_crossed_threads")
              elif kind == "take_drop":
                  t.drop()
              else:
                  if t.suspended():
                      actor.pending_cycle = True
                  t.drop_cyclic()
                  if actor.pending_cycle and actor.depth() >= 2:
                      actor.probe("cyclic_drop_left_scopes_pushed")
              out = t.outcome()
          elif kind == "gc":
              before = actor.depth()
              guarded_collect()
              if actor.pending_cycle and actor.depth() < before:
                  actor.probe("gc_finalised_iterator_and_popped")
              actor.pending_cycle = False
              out = {"k": "none"}
          elif kind == "tree":
              from jsonschema.exceptions import ErrorTree
              with StackLimit(deep):
                  tree = ErrorTree(v.iter_errors(inst))
              out = {"k": "value", "v": tree.total_errors}
          elif kind == "best_match":
              from jsonschema.exceptions import best_match
              with StackLimit(deep):
                  e = best_match(v.iter_errors(inst))
              out = {"k": "value", "v": None if e is None else canon_error(e)}
              e = None
          elif kind == "consumer_raises":
              n = 0
              with StackLimit(deep):
                  for e in v.iter_errors(inst):
                      if n >= op["k"]:
                          e = None
                          if actor.depth() >= 2:
                              actor.probe("consumer_died_with_scopes_pushed")
                          raise ConsumerDied()
                      n += 1
              out = {"k": "value", "v": n}
          elif kind == "resolve_bulk":
              okc = 0
              for j in range(op["n"]):
                  try:
                      r.resolve("http://sim.test/bulk/%d.json#/definitions/n0" % j)
                      okc += 1
                  except Exception:
                      pass
              out = {"k": "value", "v": okc}
              actor.probe("many_remote_documents_resolved")
          elif kind == "check_schema":
              actor.cls.check_schema(actor.root)
              out = {"k": "none"}
          elif kind == "rebuild":
              out = {"k": "value", "v": bool(actor.rebuild())}
              v, r = actor.validator, actor.resolver
              actor.probe("validator_rebuilt_mid_history")
          elif kind == "register":
              # the user registers a dialect of their own (process-wide registry; an id nobody else uses)
              from jsonschema import validators as _V
              _V.create(meta_schema={"$id": op["uid"], "id": op["uid"]}, validators=dict(actor.cls.VALIDATORS),
                        version="dsim " + op["uid"], type_checker=actor.cls.TYPE_CHECKER, id_of=actor.cls.ID_OF)
              out = {"k": "none"}
              actor.probe("class_registered_mid_history")
          elif kind == "resolve":
              url, resolved = r.resolve(op["ref"])
              out = {"k": "value", "v": [url, typed(resolved)]}
          elif kind == "resolve_from_url":
              resolved = r.resolve_from_url(op["ref"])
              out = {"k": "value", "v": typed(resolved)}
          elif kind == "resolve_remote":
              # the public fetch primitive, called directly (always retrieves; raw exceptions by contract)
              resolved = r.resolve_remote(op["ref"])
              out = {"k": "value", "v": typed(resolved)}
          elif kind == "resolve_fragment":
              doc = copy.deepcopy(actor.world["docs"].get(op["doc"], actor.world["root"]))
              before = fast(doc)
              resolved = r.resolve_fragment(doc, op["frag"])
              out = {"k": "value", "v": typed(resolved), "doc_mutated": fast(doc) != before}
          elif kind == "resolving":
              got = None
              with r.resolving(op["ref"]) as resolved:
                  inner = r.resolution_scope
                  res = typed(resolved)
                  if op.get("inner") is not None:
                      # a further resolution from INSIDE the entered reference (may need the transport, may fail)
                      url2, resolved2 = r.resolve(op["inner"])
                      got = [url2, typed(resolved2)]
                  if op.get("body_raises"):
                      raise BodyRaised()
              out = {"k": "value", "v": [inner, res, got]}
          elif kind == "in_scope":
              with r.in_scope(op["scope"]):
                  inner = r.resolution_scope
                  got = None
                  if op.get("ref") is not None:
                      url, resolved = r.resolve(op["ref"])
                      got = [url, typed(resolved)]
                  if op.get("body_raises"):
                      raise BodyRaised()
              out = {"k": "value", "v": [inner, got]}
          else:
              raise AssertionError("unknown op %r" % (kind,))
    except (ConsumerDied, BodyRaised) as x:
        out = {"k": "raised", "exc": {"cls": type(x).__name__, "msg": ""}}
    except AssertionError:
        raise
    except Exception as x:
        out = {"k": "raised", "exc": canon_exc(x)}
    if inst is not None:
        out["_instance_mutated"] = fast(inst) != inst0
        if kind == "tree" and actor.world.get("touchy_instances"):
            # ErrorTree subscripts the instance BY DESIGN (documented: an index unknown to the tree is tried on
            # the instance so that its own KeyError/IndexError propagates), and draft 3 reports a missing
            # required property under that property's path: on a defaultdict the probe inserts the key.  That is
            # the error-reporting helper doing what it documents, not validation modifying the instance.
            if out["_instance_mutated"]:
                actor.probe("errortree_probe_inserted_key_into_defaultdict")
            out["_instance_mutated"] = False
    return out
