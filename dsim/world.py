"""World and workload generation (pure: touches no jsonschema code, iterates no sets).

A world is plain JSON: a draft, a root schema, remote documents by URL, which of
them are pre-seeded in the store, custom collaborator behaviours, and instances.
Worlds are built so that leftover or shared resolver state is *observable*:
relative reference strings whose meaning depends on the base in effect, nested
id/$id on the evaluation path, several spellings of one target, recursion that
consumes the instance, and (optionally) unresolvable references.
"""
import posixpath
from urllib.parse import urldefrag, urljoin, urlsplit

KEYS = ["a", "b", "c"]
ZOO = [None, True, False, 0, 1, 2, 1.0, 1.5, 2.5, 0.3, -3, 7, 10 ** 30, "", "ab", "abc", "Zz", "z", "x y", [], {}]
SCALARS = [None, True, False, 0, 1, 2, 1.0, 1.5, -3, 7, "", "ab", "abc", "Zz"]
PATTERNS = ["^a", "b$", "^.$", "z"]
PP_PATTERNS = ["^a", "^[bc]$", "."]
ROOT_URLS = ["http://sim.test/root/main.json", "http://sim.test/root/main.json",
             "http://sim.test/main.json", "sim://h/r/main.json", ""]
DOC_URLS = ["http://sim.test/root/d1.json", "http://sim.test/root/sub/d1.json", "http://sim.test/root/sub/d2.json",
            "http://sim.test/d3.json", "sim://h/r/d4.json", "sim://h/r/sub/d7.json", "urn:dsim:doc:8",
            "http://other.test/o/d5.json", "https://sim.test/root/d6.json"]
TYPE_NAMES = {
    "draft3": ["any", "array", "boolean", "integer", "object", "null", "number", "string"],
    "draft4": ["array", "boolean", "integer", "object", "null", "number", "string"],
}
TYPE_NAMES["draft6"] = TYPE_NAMES["draft7"] = TYPE_NAMES["draft4"]
PYTYPES = ["int", "str", "list", "dict", "float", "bool", "NoneType"]
METASCHEMA_IDS = {
    "draft3": "http://json-schema.org/draft-03/schema",
    "draft4": "http://json-schema.org/draft-04/schema",
    "draft6": "http://json-schema.org/draft-06/schema",
    "draft7": "http://json-schema.org/draft-07/schema",
}


def idkw_of(draft):
    return "id" if draft in ("draft3", "draft4") else "$id"


def same_target(a, b):
    ua, fa = urldefrag(a)
    ub, fb = urldefrag(b)
    return urlsplit(ua).geturl() == urlsplit(ub).geturl() and fa == fb


def ptr_token(name):
    """A member name as a JSON-pointer token inside a URI fragment (RFC 6901 escapes, then %)."""
    return name.replace("~", "~0").replace("/", "~1").replace("%", "%25")


def spellings(base, target_url, frag):
    """All reference strings that, joined to `base`, designate target_url#frag."""
    fragpart = ("#" + frag) if frag else ""
    cands = [target_url + fragpart]
    if not frag:
        cands.append(target_url + "#")
    if base:
        bs, ts = urlsplit(base), urlsplit(target_url)
        if target_url and (bs.scheme, bs.netloc) == (ts.scheme, ts.netloc) and ts.path:
            cands.append(ts.path + fragpart)
            bdir = bs.path if bs.path.endswith("/") else posixpath.dirname(bs.path)
            rel = posixpath.relpath(ts.path, bdir or "/")
            cands.append(rel + fragpart)
            if not rel.startswith("."):
                cands.append("./" + rel + fragpart)
            cands.append("//" + ts.netloc + ts.path + fragpart)
    if urldefrag(base)[0] == target_url:
        cands.append("#" + frag)
    want = target_url + "#" + frag
    out = []
    for c in cands:
        if c and same_target(urljoin(base, c), want) and c not in out:
            out.append(c)
    return out


_SUB = ("items", "additionalItems", "additionalProperties", "not", "if", "then", "else", "contains",
        "propertyNames", "extends")
_SUBLIST = ("allOf", "anyOf", "oneOf", "items", "extends", "type", "disallow")
_SUBMAP = ("properties", "patternProperties", "definitions", "dependencies")


def add_titles(schema, counter=None):
    """A copy in which every subSCHEMA object (never a map of names, never a value) carries a "title"."""
    counter = counter if counter is not None else [0]
    if not isinstance(schema, dict):
        return schema
    out = {}
    for k, v in schema.items():
        if k in _SUB and isinstance(v, dict):
            out[k] = add_titles(v, counter)
        elif k in _SUBLIST and isinstance(v, list):
            out[k] = [add_titles(x, counter) for x in v]
        elif k in _SUBMAP and isinstance(v, dict):
            out[k] = dict((n, add_titles(x, counter)) for n, x in v.items())
        else:
            out[k] = v
    if "$ref" not in out or len(out) > 1:
        counter[0] += 1
        out.setdefault("title", "t%d" % counter[0])
    return out


class Knobs(dict):
    __getattr__ = dict.__getitem__


def default_knobs(rng, **over):
    """Swarm configuration: each run draws its own sizes and rates."""
    k = Knobs(
        draft=rng.choice(["draft3", "draft4", "draft6", "draft7", "draft7", "draft4"]),
        root_url=rng.choice(ROOT_URLS),
        ndocs=rng.choice([0, 1, 1, 2, 2, 3]),
        ndefs=rng.randint(1, 7),
        ref_rate=rng.choice([0.25, 0.4, 0.55]),
        nested_id_rate=rng.choice([0.0, 0.2, 0.4, 0.6]),
        unresolvable_rate=rng.choice([0.0, 0.0, 0.0, 0.06, 0.15]),
        store_rate=rng.choice([0.0, 0.0, 0.3, 0.6]),
        custom_types=rng.random() < 0.25,
        custom_keywords=rng.random() < 0.3,
        formats=rng.random() < 0.4,
        metaschema_refs=rng.random() < 0.2,
        depth=rng.choice([1, 2, 2, 3]),
        ninstances=rng.randint(2, 5),
        inst_depth=rng.choice([2, 3, 3, 4]),
        variant=0,
        triggers=rng.choice([False, False, True]),
        regex_boost=False,
        decimal_floats=rng.random() < 0.1,
        deep_instance=False,
        tricky_names=rng.random() < 0.2,
        touchy_instances=rng.random() < 0.1,
        odd_ids=rng.random() < 0.12,
    )
    k.update(over)
    return k


class WorldGen(object):
    def __init__(self, rng, knobs):
        self.rng = rng
        self.k = knobs
        self.draft = knobs.draft
        self.idkw = idkw_of(self.draft)
        self.modern = self.draft in ("draft6", "draft7")
        self.reflog = []   # (reference string, target document URL) as generated

    # ------------------------------------------------------------ top level
    def world(self):
        rng, k = self.rng, self.k
        self.root_url = k.root_url
        self.doc_urls = rng.sample(DOC_URLS, k.ndocs)
        if k.ndocs >= 2 and rng.random() < 0.15:
            # two DIFFERENT documents whose URLs differ only by a percent-encoded reserved character and its literal
            # meaning: a store that decodes before it normalises would take them for one
            pair = rng.choice([["http://sim.test/root/p%2Fq.json", "http://sim.test/root/p/q.json"],
                               ["http://sim.test/root/lang/c%23", "http://sim.test/root/lang/c"],
                               ["http://sim.test/root/what%3F", "http://sim.test/root/what"]])
            self.doc_urls[:2] = pair
        elif k.ndocs >= 1 and rng.random() < 0.15:
            # a document whose URL contains characters that are not legal in a URI as they stand (users write
            # them; transports may want them escaped): the store key is the spelling the references use
            self.doc_urls[0] = rng.choice(["http://sim.test/root/common types.json", "http://sim.test/root/d\u00e9fs.json",
                                           "http://sim.test/root/a|b^c.json", "http://sim.test/root/sub/{x}.json"])
        # documents that are *falsy* JSON values: the empty schema, an empty array, (draft 6+) false/true
        self.plain_docs = {}
        if rng.random() < 0.3:
            self.plain_docs["http://sim.test/root/any.json"] = rng.choice(
                [{}, {}, [], False, True] if self.modern else [{}, {}, []])
        homes = []
        for i in range(k.ndefs):
            if i < len(self.doc_urls):
                homes.append(self.doc_urls[i])
            else:
                homes.append(rng.choice(["root", "root"] + self.doc_urls))
        rng.shuffle(homes)
        self.homes = homes
        # definition names collide across documents on purpose (n0, n1, ... per home): the same
        # reference string "#/definitions/n0" designates different schemas under different bases
        count = {}
        self.names = []
        for h in homes:
            self.names.append("n%d" % count.get(h, 0))
            count[h] = count.get(h, 0) + 1
        if k.get("tricky_names"):
            # definition names that need escaping in a JSON pointer / URI fragment, in pairs where the escaped form
            # of one is the literal text of the other ("~1" is written ~01, "/" is written ~1; "p%q" is written
            # p%25q): decoding once too often, or not at all, lands on the sibling
            byhome = {}
            for i, h in enumerate(homes):
                byhome.setdefault(h, []).append(i)
            for h in sorted(byhome):
                pool = rng.choice([["~1", "/"], ["~0", "~"], ["a/b", "a~1b"], ["p%q", "p%25q"], ["m~n", "sp ace"]])
                if rng.random() < 0.5:
                    pool = pool[::-1]
                for j, i in enumerate(byhome[h][:2]):
                    self.names[i] = pool[j]
        self.custom = None
        if k.custom_types or k.custom_keywords:
            self.custom = {"types": ["even", "nonempty"] if k.custom_types else [],
                           "keywords": ["x-marker", "x-each", "x-also"] if k.custom_keywords else [],
                           # an EXISTING keyword replaced by a stricter one (stock errors plus one of its own)
                           "override": rng.choice([None, "properties", "items", "minLength"]),
                           "variant": k.variant}
        self.formats = None
        if k.formats:
            self.formats = {"names": ["sim-evenlen", "sim-lower", "sim-noz", "sim-ambient"],
                            "variant": k.variant, "builtin": rng.random() < 0.3}
        self.triggers = None
        if k.triggers and (self.custom or self.formats):
            self.triggers = {}
            excs = ["ValueError", "KeyError", "RuntimeError", "SimFault", "TypeError"]
            if self.formats:
                self.triggers["format"] = {"value": "boom", "exc": rng.choice(excs)}
            if self.custom and self.custom["types"]:
                self.triggers["type"] = {"value": 13, "exc": rng.choice(excs)}
            if self.custom and self.custom["keywords"]:
                self.triggers["kw"] = {"value": "kaboom", "exc": rng.choice(excs)}
        defs = {}
        for i in range(k.ndefs - 1, -1, -1):  # generate high indices first (no dependency, just a fixed order)
            home = homes[i]
            base = self.root_url if home == "root" else home
            defs[i] = self.schema(base, i, k.depth, False)
        root = {}
        if self.root_url:
            root[self.idkw] = self.root_url
        top = self.top_level(self.root_url)
        root.update(top)
        rdefs = dict((self.names[i], defs[i]) for i in range(k.ndefs) if homes[i] == "root")
        if rdefs:
            root["definitions"] = rdefs
        if self.root_url.startswith("http") and rng.random() < 0.15:
            # a reference whose JSON pointer passes THROUGH a subschema that declares an id of its own, to a referent
            # holding a relative reference: the library resolves that relative reference against the document's base
            # (the id on the way is not entered - a known limitation) - every time, not only the second time
            rel = [u for u in self.doc_urls if u.startswith("http")]
            if rel:
                tgt = rng.choice(rel)
                sp = [x for x in spellings(self.root_url, tgt, "/definitions/" + ptr_token(self.names[homes.index(tgt)]
                                                                                          if tgt in homes else "n0"))
                      if not x.startswith(("http", "/", "#"))]
                if sp:
                    rel = rng.choice(sp)
                    root.setdefault("definitions", {})["nest"] = {
                        self.idkw: "folder/", "definitions": {"inner": {"$ref": rel}},
                        # ... and an id-bearing subschema BELOW it that is reached on two routes: through its parent
                        # (base <root>/folder/deep/) and by a pointer that jumps over the parent (base <root>/deep/)
                        "properties": {"w": {self.idkw: "deep/", "$ref": rel}}}
                    props = root.setdefault("properties", {})
                    props["zz"] = {"$ref": "#/definitions/nest/definitions/inner"}
                    if rng.random() < 0.7:
                        props["c"] = {"$ref": "#/definitions/nest"}
                        jump = "a" if rng.random() < 0.5 else "zz"
                        props[jump] = {"$ref": "#/definitions/nest/properties/w"}
                        self.route_instances = [{"c": {"w": rng.choice([1, "s", None])}}, {jump: rng.choice([1, "s", None])}]
        docs = {}
        for u in self.doc_urls:
            doc = {}
            r = rng.random()
            if r < 0.3:
                doc[self.idkw] = u
            elif r < 0.4:
                doc[self.idkw] = u + "#"
            elif r < 0.55:
                # a document may declare an id that is NOT the URL it is served from (a mirror): it must not
                # thereby become, or shadow, the document that really lives at the declared URL
                others = [x for x in self.doc_urls if x != u]
                doc[self.idkw] = rng.choice(others + ["http://sim.test/canonical/c%d.json" % len(docs)])
            doc.update(self.leaf(allow_bool=False) if rng.random() < 0.5 else {})
            if rng.random() < 0.3:
                doc["description"] = rng.choice(["caf\u00e9 \u20ac", "\u65e5\u672c\u8a9e", "na\u00efve \u2014 d\u00e9j\u00e0 vu"])   # non-ASCII on the wire
            doc["definitions"] = dict((self.names[i], defs[i]) for i in range(k.ndefs) if homes[i] == u)
            docs[u] = doc
        docs.update(self.plain_docs)
        store_docs = [u for u in self.doc_urls if rng.random() < k.store_rate]
        # the caller may spell a store key with a trailing '#': it designates the same document
        store_keys = dict((u, u + "#" if rng.random() < 0.4 else u) for u in store_docs)
        instances = [self.instance(k.inst_depth, top=True) if rng.random() < 0.5
                     else self.directed(root, docs, root, k.inst_depth + 2) for _ in range(k.ninstances)]
        for ri in getattr(self, "route_instances", ()):
            instances[rng.randrange(len(instances))] = ri      # one instance per route to the two-route subschema
        if rng.random() < 0.5:
            # a twin of an earlier instance that differs only in JSON *type* where Python calls the values equal
            # (1 / 1.0 / true, 0 / 0.0 / false): whatever a validator remembers about one must not leak to the other
            j = rng.randrange(len(instances))
            instances.append(self.twin(instances[j]))
        if k.get("deep_instance") and not k.get("decimal_floats"):
            # stack exhaustion as a fault: an instance nested so deeply that a recursive schema dies with
            # RecursionError somewhere inside the library (kept as a compact spec; built iteratively at run time)
            unit = self.directed(root, docs, root, 6)
            path = []
            node = unit
            while isinstance(node, (dict, list)) and node:
                key = sorted(node)[0] if isinstance(node, dict) else 0
                path.append(key)
                node = node[key]
            if path:
                n = rng.randint(20, 120)
                n = max(10, min(n, 240 // len(path)))       # with the lowered limit (400 frames) this is deep enough
                instances.append({"$deep": {"unit": unit, "path": path, "n": n}})
        if self.formats:
            # strings that make the raising checkers raise, at the places the schemas look at
            zrich = [{"a": "z", "zz": ["z", 5], "b": {"zz": "Zz", "a": []}},
                     ["z", {"zz": "z", "a": 1}, 5, ["Zz"]],
                     {"zz": {"a": "zz", "c": None}, "a": ["z"], "c": "x y"}]
            instances[rng.randrange(len(instances))] = rng.choice(zrich)
        return {
            "draft": self.draft, "root_url": self.root_url, "root": root, "docs": docs,
            "store_docs": store_docs, "store_keys": store_keys, "custom": self.custom, "formats": self.formats,
            "homes": homes, "instances": instances, "reflog": self.reflog, "triggers": self.triggers,
            "decimal_floats": bool(k.get("decimal_floats")),
            "touchy_instances": bool(k.get("touchy_instances")),
        }

    def top_level(self, base):
        """Root keywords: always reaches at least one definition through a reference."""
        rng = self.rng
        out = {}
        n = self.k.ndefs
        picks = [rng.randrange(n) for _ in range(rng.randint(1, 3))]
        shape = rng.random()
        refs = [self.ref_to_def(base, j) for j in picks]
        refs = [r for r in refs if r is not None] or [self.leaf()]
        if shape < 0.45:
            out["properties"] = dict((KEYS[i % 3], r) for i, r in enumerate(refs))
            if rng.random() < 0.4:
                out["items"] = self.schema(base, -1, 1, True)
        elif shape < 0.7:
            out["items"] = refs[0]
            if len(refs) > 1:
                out["properties"] = {rng.choice(KEYS): refs[1]}
        elif shape < 0.85 and self.draft != "draft3":
            out[rng.choice(["allOf", "anyOf", "oneOf"])] = refs
            out["properties"] = {rng.choice(KEYS): self.schema(base, -1, 1, True)}
        else:
            out["additionalProperties"] = refs[0]
            if len(refs) > 1:
                out["items"] = refs[1]
        if rng.random() < 0.3:
            out.update(self.leaf(allow_bool=False))
        if self.formats and rng.random() < 0.3:
            out.update(self.motif_pin_then_fail(base, -1))
        return out

    # ------------------------------------------------------------ references
    def ref_to_def(self, base, j):
        home = self.homes[j]
        url = self.root_url if home == "root" else home
        sp = spellings(base, url, "/definitions/" + ptr_token(self.names[j]))
        if base and base.startswith(("sim://", "urn:")) and url and (url == base or not base.startswith("urn:")) \
                and self.rng.random() < 0.35:
            # what users write inside a document of a scheme that urllib.parse.urljoin does not treat as
            # hierarchical: a same-document pointer or a sibling's file name.  urljoin hands such a reference back
            # UNJOINED, so today it is looked up as it stands (and usually is unresolvable) - deterministically,
            # whatever other validators of the process have done
            tok = "#/definitions/" + ptr_token(self.names[j])
            naive = tok if url == base else posixpath.basename(urlsplit(url).path) + tok
            self.reflog.append([naive, url])
            return {"$ref": naive}
        if not sp:
            return None
        r = self.rng.choice(sp)
        self.reflog.append([r, url])
        return {"$ref": r}

    def ref(self, base, index, consumed):
        rng, k = self.rng, self.k
        if rng.random() < k.unresolvable_rate:
            kind = rng.random()
            if kind < 0.4:
                tgt = self.root_url if (self.root_url or not base) else (self.doc_urls[0] if self.doc_urls else "")
                sp = spellings(base, tgt, "/definitions/nope")
                if sp:
                    return {"$ref": rng.choice(sp)}
            if kind < 0.8:
                return {"$ref": "http://sim.test/root/missing.json#/definitions/n0"}
            return {"$ref": "nosuch://x/y.json"}
        cands = []
        n = k.ndefs
        lo = 0 if consumed else index + 1
        for j in range(lo, n):
            cands.append(("def", j))
        for u in self.doc_urls:
            cands.append(("docroot", u))
        for u in self.plain_docs:
            if not isinstance(self.plain_docs[u], list):
                cands.append(("docroot", u))
                cands.append(("docroot", u))
        if consumed:
            cands.append(("root", None))
        if k.metaschema_refs:
            cands.append(("meta", None))
        rng.shuffle(cands)
        for kind, x in cands:
            if kind == "def":
                r = self.ref_to_def(base, x)
                if r is None:
                    continue
            elif kind == "docroot":
                sp = spellings(base, x, "")
                r = {"$ref": rng.choice(sp)}
                self.reflog.append([r["$ref"], x])
            elif kind == "root":
                sp = spellings(base, self.root_url, "")
                if not sp:
                    continue
                r = {"$ref": rng.choice(sp)}
            else:
                mid = METASCHEMA_IDS[self.draft]  # own draft only: foreign metaschemas crash foreign keyword tables
                frag = rng.choice(["", "#", "#/properties/title", "#/properties/type"])
                r = {"$ref": mid + frag}
            if rng.random() < 0.15:
                r.update(self.leaf(allow_bool=False))  # siblings of $ref are ignored
            return r
        return None

    # ------------------------------------------------------------ schemas
    def schema(self, base, index, depth, consumed):
        rng, k = self.rng, self.k
        p = rng.random()
        if p < k.ref_rate:
            r = self.ref(base, index, consumed)
            if r is not None:
                if rng.random() < k.nested_id_rate * 0.6:
                    nid = self.nested_id(base)
                    if nid is not None:
                        # id next to $ref still changes the base for that $ref
                        nb = urljoin(base, nid)
                        r2 = self.ref(nb, index, consumed)
                        if r2 is not None:
                            r2[self.idkw] = nid
                            return r2
                return r
        if self.formats and depth > 0 and rng.random() < 0.12:
            return self.motif_pin_then_fail(base, index)
        if self.triggers and self.draft != "draft3" and rng.random() < 0.2:
            return self.motif_fail_then_raise()
        if depth <= 0 or p < k.ref_rate + 0.2:
            return self.leaf()
        s = self.applicator(base, index, depth, consumed)
        return s

    def nested_id(self, base):
        rng = self.rng
        opts = ["sub/", "nested/n1.json", "#frag", "../up.json"]
        for u in self.doc_urls:
            opts.append(u)
            opts.append(u.rsplit("/", 1)[0] + "/")
        return rng.choice(opts)

    def applicator(self, base, index, depth, consumed):
        rng = self.rng
        s = {}
        if rng.random() < self.k.nested_id_rate:
            nid = self.nested_id(base)
            s[self.idkw] = nid
            base = urljoin(base, nid)
        elif self.k.get("odd_ids") and rng.random() < 0.2:
            # an id that is truthy but cannot be joined to a base (somebody forgot a `properties` level, or
            # mistyped a URL): entering this subschema raises out of validation - and must leave no trace
            s[self.idkw] = rng.choice([12, ["x"], {"type": "integer"}, "http://[oops", True, 1.5])
        if rng.random() < 0.35:
            # assertion keywords *before* the applicators of the same schema object: keyword order is
            # evaluation order, and what an earlier keyword left behind matters to the later ones
            s.update(self.leaf(allow_bool=False))
        d = depth - 1
        kinds = ["properties", "properties", "items", "items_array", "additionalProperties",
                 "patternProperties", "dependencies"]
        if self.draft != "draft3":
            kinds += ["allOf", "anyOf", "oneOf", "not"]
        else:
            kinds += ["extends", "type_schema", "disallow_schema"]
        if self.modern:
            kinds += ["contains", "propertyNames"]
        if self.draft == "draft7":
            kinds += ["if", "if"]
        if self.custom and self.custom["keywords"]:
            kinds += ["x-each", "x-also"]
        if self.k.get("regex_boost"):
            kinds += ["patternProperties"] * 3
        for kind in rng.sample(kinds, rng.choice([1, 1, 2])):
            if kind == "properties":
                props = {}
                for key in rng.sample(KEYS, rng.randint(1, 2)):
                    sub = self.schema(base, index, d, True)
                    if self.draft == "draft3" and isinstance(sub, dict) and "$ref" not in sub and rng.random() < 0.3:
                        sub["required"] = True
                    props[key] = sub
                s["properties"] = props
            elif kind == "items":
                s["items"] = self.schema(base, index, d, True)
            elif kind == "items_array":
                s["items"] = [self.schema(base, index, d, True) for _ in range(rng.randint(1, 2))]
                r = rng.random()
                if r < 0.3:
                    s["additionalItems"] = False
                elif r < 0.6:
                    s["additionalItems"] = self.schema(base, index, d, True)
            elif kind == "additionalProperties":
                s["additionalProperties"] = self.schema(base, index, d, True) if rng.random() < 0.7 else False
            elif kind == "patternProperties":
                s["patternProperties"] = {rng.choice(PP_PATTERNS): self.schema(base, index, d, True)}
                if self.k.get("regex_boost") and rng.random() < 0.5:
                    s["additionalProperties"] = rng.choice([False, self.leaf()])
            elif kind == "dependencies":
                key = rng.choice(KEYS)
                if rng.random() < 0.6:
                    s["dependencies"] = {key: self.objschema(base, index, d, consumed)}
                elif self.draft == "draft3" and rng.random() < 0.5:
                    s["dependencies"] = {key: rng.choice(KEYS)}
                else:
                    s["dependencies"] = {key: [rng.choice(KEYS)]}
            elif kind in ("allOf", "anyOf", "oneOf"):
                s[kind] = [self.schema(base, index, d, consumed) for _ in range(rng.randint(1, 3))]
            elif kind == "not":
                s["not"] = self.schema(base, index, d, consumed)
            elif kind == "extends":
                if rng.random() < 0.5:
                    s["extends"] = self.objschema(base, index, d, consumed)
                else:
                    s["extends"] = [self.objschema(base, index, d, consumed) for _ in range(rng.randint(1, 2))]
            elif kind == "type_schema":
                s["type"] = [rng.choice(TYPE_NAMES["draft3"]), self.objschema(base, index, d, consumed)]
            elif kind == "disallow_schema":
                s["disallow"] = [self.objschema(base, index, d, consumed)]
            elif kind == "contains":
                s["contains"] = self.schema(base, index, d, True)
            elif kind == "propertyNames":
                s["propertyNames"] = self.schema(base, index, d, True)
            elif kind == "if":
                s["if"] = self.schema(base, index, d, consumed)
                if rng.random() < 0.8:
                    s["then"] = self.schema(base, index, d, consumed)
                if rng.random() < 0.6:
                    s["else"] = self.schema(base, index, d, consumed)
            elif kind == "x-each":
                s["x-each"] = self.schema(base, index, d, True)
            elif kind == "x-also":
                s["x-also"] = self.schema(base, index, d, consumed)
        return s

    def motif_fail_then_raise(self):
        """anyOf / oneOf whose EARLIER branches have already failed (or matched) when a LATER branch dies in a user
        collaborator (undeclared exception on a trigger value): whatever the keyword had collected so far is
        abandoned mid-way."""
        rng = self.rng
        raising = []
        if "format" in self.triggers:
            raising.append({"format": rng.choice(self.formats["names"])})
        if "type" in self.triggers:
            raising.append({"type": rng.choice(self.custom["types"])})
        if "kw" in self.triggers:
            raising.append({"x-marker": rng.choice(["int", "str"])})
        r = rng.choice(raising)
        failing = [{"type": "null"}, {"enum": []}, {"type": "object", "required": ["nope"]} if self.draft != "draft3"
                   else {"type": "null"}, {"maxLength": 0, "maximum": -100}]
        if rng.random() < 0.6:
            return {"anyOf": rng.sample(failing, rng.randint(1, 2)) + [r] + ([{}] if rng.random() < 0.3 else [])}
        return {"oneOf": rng.choice([[{}, {"type": ["string", "integer", "number"]}, r],
                                     rng.sample(failing, 1) + [{}, r], rng.sample(failing, 2) + [r]])}

    def motif_pin_then_fail(self, base, index):
        """A shape that history bugs like: inside ONE schema object, an earlier keyword swallows a format
        failure whose checker *raised* (the exception lives on as an error's cause, with its traceback),
        a later keyword fails below a reference / id scope, and the whole object sits under a keyword
        that abandons its error iterator at the first error (not / if / contains / oneOf / disallow)."""
        rng, d = self.rng, self.draft
        f = {"format": rng.choice(["sim-noz", "sim-noz", "date", "ipv4"] if self.formats.get("builtin")
                                  else ["sim-noz"])}
        if d == "draft3":
            absorbed = rng.choice([{"disallow": [f]}, {"type": [f, "any"]}])
        else:
            absorbed = rng.choice([{"not": f}, {"not": dict(f, type="object")}, {"anyOf": [f, {}]},
                                   {"oneOf": [f, {}]}] + ([{"if": f}] if d == "draft7" else []))
        fail = self.ref(base, index, True) or {"type": "null"}
        if rng.random() < 0.3:
            fail = {self.idkw: rng.choice(["sub/", "nested/n1.json"]), "allOf" if d != "draft3" else "extends": [fail]}
        k1s = ["properties", "items", "additionalProperties", "patternProperties"] + (["propertyNames"] if self.modern else [])
        k1 = rng.choice(k1s)
        k2 = rng.choice([k for k in ["properties", "items", "additionalProperties", "patternProperties"] if k != k1])

        def wrap(k, sub):
            if k == "properties":
                return dict((key, sub) for key in rng.sample(KEYS + ["zz"], 2))
            if k == "patternProperties":
                return {rng.choice(["^a", ".", "z"]): sub}
            return sub
        m = {}
        if rng.random() < self.k.nested_id_rate:
            m[self.idkw] = rng.choice(["sub/", "#frag", "nested/n1.json"])
        m[k1] = wrap(k1, absorbed)
        m[k2] = wrap(k2, fail)
        forms = ["oneOf", "not"] if d != "draft3" else ["disallow"]
        if self.modern:
            forms.append("contains")
        if d == "draft7":
            forms.append("if")
        w = rng.choice(forms)
        if w == "oneOf":
            return {"oneOf": [{}, m] + ([{"type": "null"}] if rng.random() < 0.3 else [])}
        if w == "not":
            return {"not": m}
        if w == "disallow":
            return {"disallow": [m]}
        if w == "contains":
            return {"contains": m}
        return {"if": m, "then": self.leaf(), "else": self.leaf()}

    def objschema(self, base, index, depth, consumed):
        """A schema that is an object (draft 3 positions that do not take booleans)."""
        s = self.schema(base, index, depth, consumed)
        if not isinstance(s, dict):
            return {}
        return s

    def format_name(self):
        rng = self.rng
        names = ["sim-noz", "sim-noz", "sim-evenlen", "sim-lower", "sim-ambient"]
        if self.formats.get("builtin"):
            names += ["ipv4", "date", "date"]
        return rng.choice(names)

    def leaf(self, allow_bool=True):
        rng = self.rng
        d = self.draft
        if allow_bool and self.modern and rng.random() < 0.08:
            return rng.choice([True, False])
        out = {}
        kinds = ["type", "type", "type", "minimum", "maximum", "minLength", "maxLength", "pattern",
                 "enum", "minItems", "maxItems", "uniqueItems", "multiple", "empty", "addl_false"]
        if d != "draft3":
            kinds += ["required", "maxProperties", "minProperties"]
        if self.modern:
            kinds += ["const", "exclusive"]
        if self.formats:
            kinds += ["format", "format", "absorbed_format", "absorbed_format", "absorbed_format"]
        if self.custom and self.custom["keywords"]:
            kinds += ["x-marker"]
        if self.custom and self.custom["types"]:
            kinds += ["custom_type", "custom_type"]
        if self.k.get("regex_boost"):
            kinds += ["pattern"] * 5
        if self.k.get("decimal_floats"):
            kinds += ["minimum", "maximum", "multiple"] * 4       # Decimal instances meet float bounds and divisors
        if getattr(self, "triggers", None):
            # faults need workload: make the raising collaborators reachable
            if "format" in self.triggers:
                kinds += ["format"] * 6
            if "type" in self.triggers:
                kinds += ["custom_type"] * 6
            if "kw" in self.triggers:
                kinds += ["x-marker"] * 6
        for kind in rng.sample(kinds, rng.choice([1, 1, 2])):
            if kind == "type":
                names = TYPE_NAMES[d]
                out["type"] = rng.choice(names) if rng.random() < 0.7 else rng.sample(names, 2)
            elif kind == "custom_type":
                out["type"] = rng.choice(["even", "nonempty", ["even", "string"]])
            elif kind == "minimum":
                out["minimum"] = rng.choice([0, 1, 2, 1.5] if not self.k.get("decimal_floats") else [0.5, 1.5, 2.5, 1])
                if d in ("draft3", "draft4") and rng.random() < 0.3:
                    out["exclusiveMinimum"] = True
            elif kind == "maximum":
                out["maximum"] = rng.choice([0, 1, 2, 1.5] if not self.k.get("decimal_floats") else [0.5, 1.5, 2.5, 1])
                if d in ("draft3", "draft4") and rng.random() < 0.3:
                    out["exclusiveMaximum"] = True
            elif kind == "exclusive":
                out[rng.choice(["exclusiveMinimum", "exclusiveMaximum"])] = rng.choice([0, 1, 2])
            elif kind == "minLength":
                out["minLength"] = rng.randint(0, 3)
            elif kind == "maxLength":
                out["maxLength"] = rng.randint(0, 3)
            elif kind == "pattern":
                out["pattern"] = rng.choice(PATTERNS)
            elif kind == "enum":
                out["enum"] = rng.sample(SCALARS, rng.randint(1, 3))
            elif kind == "const":
                out["const"] = rng.choice(SCALARS)
            elif kind == "minItems":
                out["minItems"] = rng.randint(0, 2)
            elif kind == "maxItems":
                out["maxItems"] = rng.randint(0, 2)
            elif kind == "uniqueItems":
                out["uniqueItems"] = True
            elif kind == "multiple":
                out["divisibleBy" if d == "draft3" else "multipleOf"] = rng.choice([2, 3, 0.5, 0.4, 1.1])
            elif kind == "required":
                out["required"] = rng.sample(KEYS, rng.randint(1, 2))
            elif kind == "maxProperties":
                out["maxProperties"] = rng.randint(0, 2)
            elif kind == "minProperties":
                out["minProperties"] = rng.randint(0, 2)
            elif kind == "format":
                out["format"] = self.format_name()
            elif kind == "absorbed_format":
                # a format failure (possibly one that *raises* inside the checker and is kept as the error's
                # cause) that is swallowed by an is_valid-based or any-of keyword: validation goes on after it
                f = {"format": self.format_name()}
                forms = [("anyOf", [f, {}])] if d != "draft3" else [("disallow", [f]), ("type", [f, "any"])]
                if d != "draft3":
                    forms += [("not", f), ("not", f), ("oneOf", [f, {}])]
                if d == "draft7":
                    forms += [("if", f)]
                k2, v2 = rng.choice(forms)
                out[k2] = v2
            elif kind == "x-marker":
                out["x-marker"] = rng.choice(PYTYPES)
            elif kind == "addl_false":
                out["additionalProperties"] = False
            elif kind == "empty":
                pass
        return out

    # ------------------------------------------------------------ instances
    # ------------------------------------------------------------ schema-directed instances
    def _target(self, ref, docs, root):
        """The schema a generated reference string designates (generation-side lookup; None if unknown)."""
        for string, url in self.reflog:
            if string == ref:
                doc = root if url == self.root_url else docs.get(url)
                frag = ref.split("#", 1)[1] if "#" in ref else ""
                node = doc
                for part in [p for p in frag.split("/") if p]:
                    if isinstance(node, dict) and part in node:
                        node = node[part]
                    else:
                        return None
                return node
        return None

    def directed(self, schema, docs, root, depth):
        """An instance shaped after the schema: it reaches the leaves, satisfying or violating them at random."""
        rng = self.rng
        if depth <= 0 or not isinstance(schema, dict):
            return rng.choice(ZOO)
        if "$ref" in schema:
            t = self._target(schema["$ref"], docs, root)
            return self.directed(t, docs, root, depth - 1) if t is not None else rng.choice(ZOO)
        for comb in ("anyOf", "oneOf"):
            if self.triggers and isinstance(schema.get(comb), list):
                tvs = [self._trigger_value(b) for b in schema[comb][1:] if isinstance(b, dict)]
                tvs = [x for x in tvs if x is not None]
                if tvs and rng.random() < 0.5:
                    return tvs[0]       # a LATER branch dies in a user collaborator after the earlier ones were tried
        for comb in ("allOf", "anyOf", "oneOf", "extends"):
            if isinstance(schema.get(comb), list) and schema[comb] and rng.random() < 0.6:
                return self.directed(rng.choice(schema[comb]), docs, root, depth)
        if isinstance(schema.get("extends"), dict) and rng.random() < 0.5:
            return self.directed(schema["extends"], docs, root, depth)
        objish = [k for k in ("properties", "patternProperties", "additionalProperties", "dependencies",
                              "propertyNames", "required") if k in schema]
        arrish = [k for k in ("items", "additionalItems", "contains", "minItems", "uniqueItems") if k in schema]
        kind = None
        if objish and arrish:
            kind = rng.choice(["o", "a"])
        elif objish:
            kind = "o"
        elif arrish:
            kind = "a"
        if kind == "o":
            out = {}
            for key, sub in (schema.get("properties") or {}).items():
                if rng.random() < 0.8:
                    out[key] = self.directed(sub, docs, root, depth - 1)
            for pat, sub in (schema.get("patternProperties") or {}).items():
                key = {"^a": "a", "^[bc]$": rng.choice(["b", "c"]), ".": "zz", "z": "zz"}.get(pat, "a")
                out.setdefault(key, self.directed(sub, docs, root, depth - 1))
            ap = schema.get("additionalProperties")
            if isinstance(ap, dict):
                out.setdefault(rng.choice(["zz", "c", "b"]), self.directed(ap, docs, root, depth - 1))
            elif rng.random() < 0.3:
                out.setdefault("zz", rng.choice(ZOO))
            for key in (schema.get("required") if isinstance(schema.get("required"), list) else []):
                if rng.random() < 0.6:
                    out.setdefault(key, rng.choice(ZOO))
            return out
        if kind == "a":
            items = schema.get("items")
            if isinstance(items, list):
                out = [self.directed(sub, docs, root, depth - 1) for sub in items]
                if rng.random() < 0.5:
                    ai = schema.get("additionalItems")
                    out.append(self.directed(ai, docs, root, depth - 1) if isinstance(ai, dict) else rng.choice(ZOO))
                return out
            sub = items if isinstance(items, dict) else schema.get("contains")
            return [self.directed(sub, docs, root, depth - 1) if isinstance(sub, dict) else rng.choice(ZOO)
                    for _ in range(rng.randint(1, 3))]
        # leaf: satisfy or violate
        if self.triggers and rng.random() < 0.3:
            tv = self._trigger_value(schema)
            if tv is not None:
                return tv
        t = schema.get("type")
        if isinstance(t, list):
            t = rng.choice([x for x in t if isinstance(x, str)] or [None])
        by_type = {"integer": [0, 1, 2, 7, -3, 1.0, 2.0], "number": [0, 1.5, 2, -3, 1.0, 2.5, 0.3], "string": ["", "ab", "abc", "z", "Zz"],
                   "boolean": [True, False], "null": [None], "array": [[], [1]], "object": [{}, {"a": 1}],
                   "even": [2, 3, 4], "nonempty": ["", "a", []]}
        if "enum" in schema and schema["enum"] and rng.random() < 0.5:
            return rng.choice(schema["enum"])
        if "const" in schema and rng.random() < 0.5:
            return schema["const"]
        if t in by_type and rng.random() < 0.75:
            return rng.choice(by_type[t])
        return rng.choice(ZOO)

    def _trigger_value(self, schema):
        """The value that makes a user collaborator consulted at this (leaf) schema die with an undeclared exception."""
        if not self.triggers:
            return None
        if "format" in schema and "format" in self.triggers:
            return self.triggers["format"]["value"]
        if "x-marker" in schema and "kw" in self.triggers:
            return self.triggers["kw"]["value"]
        t = schema.get("type")
        if "type" in self.triggers and (t in ("even", "nonempty") or (
                isinstance(t, list) and any(x in ("even", "nonempty") for x in t if isinstance(x, str)))):
            return self.triggers["type"]["value"]
        return None

    def twin(self, v):
        rng = self.rng
        if isinstance(v, bool):
            return rng.choice([v, int(v), float(v)])
        if isinstance(v, int) and abs(v) < 2 ** 53:
            return rng.choice([float(v), float(v), v] + ([bool(v)] if v in (0, 1) else []))
        if isinstance(v, float) and v.is_integer():
            return rng.choice([int(v), int(v), v])
        if isinstance(v, list):
            return [self.twin(x) for x in v]
        if isinstance(v, dict):
            return dict((k, self.twin(x)) for k, x in v.items())
        return v

    def instance(self, depth, top=False):
        rng = self.rng
        r = rng.random()
        if top:
            r = 0.3 + 0.7 * r if rng.random() < 0.9 else r
        if depth <= 0 or r < 0.3:
            if self.triggers and rng.random() < 0.4:
                return rng.choice(["boom", 13, "kaboom"])
            return rng.choice(ZOO)
        if r < 0.68:
            keys = rng.sample(KEYS + ["zz"], rng.randint(0, 3))
            return dict((key, self.instance(depth - 1)) for key in keys)
        return [self.instance(depth - 1) for _ in range(rng.randint(0, 3))]


def gen_world(rng, **over):
    k = default_knobs(rng, **over)
    w = WorldGen(rng, k).world()
    w["knobs"] = dict(k)
    return w


def all_ref_strings(node, out=None):
    """Every $ref string occurring in a JSON value (generation-side helper, ordered)."""
    if out is None:
        out = []
    if isinstance(node, dict):
        for key, v in node.items():
            if key == "$ref" and isinstance(v, str):
                if v not in out:
                    out.append(v)
            else:
                all_ref_strings(v, out)
    elif isinstance(node, list):
        for v in node:
            all_ref_strings(v, out)
    return out
