"""Delta-debugging minimiser over JSON scenarios (deterministic re-execution)."""
import copy


def shrink_ops(scn, key):
    ops = scn[key]
    n = len(ops)
    # drop a suffix, then halves, then single ops (last first)
    for cut in range(1, n):
        c = copy.deepcopy(scn)
        c[key] = ops[:cut]
        yield c
    if n >= 4:
        for lo, hi in ((0, n // 2), (n // 2, n)):
            c = copy.deepcopy(scn)
            c[key] = ops[:lo] + ops[hi:]
            if c[key]:
                yield c
    for i in range(n - 1, -1, -1):
        if n > 1:
            c = copy.deepcopy(scn)
            del c[key][i]
            yield c


def _get(o, path):
    for p in path:
        o = o[p]
    return o


def _paths(node, prefix, out):
    if isinstance(node, dict):
        for k in list(node):
            out.append(prefix + [k])
            _paths(node[k], prefix + [k], out)
    elif isinstance(node, list):
        for i in range(len(node)):
            out.append(prefix + [i])
            _paths(node[i], prefix + [i], out)


def shrink_json_at(scn, path, keep_list_length=False):
    """Candidates that delete a key / element, or replace a subtree by {} / None, under scn[path]."""
    root = _get(scn, path)
    paths = []
    _paths(root, [], paths)
    paths.sort(key=len)  # shallow (big) subtrees first
    for p in paths:
        parent = _get(root, p[:-1])
        last = p[-1]
        node = parent[last]
        top_level_list = keep_list_length and len(p) == 1
        if isinstance(parent, dict) or (isinstance(parent, list) and not top_level_list):
            c = copy.deepcopy(scn)
            par = _get(_get(c, path), p[:-1])
            del par[last]
            yield c
        if isinstance(node, (dict, list)) and node:
            c = copy.deepcopy(scn)
            par = _get(_get(c, path), p[:-1])
            par[last] = {} if isinstance(node, dict) else []
            yield c
        elif top_level_list and node is not None:
            c = copy.deepcopy(scn)
            par = _get(_get(c, path), p[:-1])
            par[last] = None
            yield c


def minimise(scn, cls, prop, runner, budget=400, max_seconds=420):
    """Greedy: accept any candidate that still shows violation class `cls`.

    runner(scn) -> list of violation classes observed (deterministic).
    Returns (minimised scenario, executions used).
    """
    import time
    t0 = time.time()
    used = 0
    improved = True
    cur = scn
    while improved and used < budget and time.time() - t0 < max_seconds:
        improved = False
        for cand in prop.shrink(cur):
            if used >= budget or time.time() - t0 >= max_seconds:
                break
            used += 1
            try:
                classes = runner(cand)
            except Exception:
                continue
            if cls in classes:
                cur = cand
                improved = True
                break
    return cur, used
