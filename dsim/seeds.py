"""One integer decides everything: seed derivation (no hash(), no clocks)."""
import hashlib

MASK = (1 << 64) - 1


def splitmix64(x):
    x = (x + 0x9E3779B97F4A7C15) & MASK
    z = x
    z = ((z ^ (z >> 30)) * 0xBF58476D1CE4E5B9) & MASK
    z = ((z ^ (z >> 27)) * 0x94D049BB133111EB) & MASK
    return z ^ (z >> 31)


def _tag(s):
    return int.from_bytes(hashlib.sha256(s.encode()).digest()[:8], "big")


def run_seed(verif_seed, prop, index):
    """Seed of run `index` of property `prop` under VERIF_SEED."""
    x = splitmix64((verif_seed & MASK) ^ _tag(prop))
    return splitmix64(x ^ splitmix64(index & MASK))
