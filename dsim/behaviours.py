"""Named collaborator behaviours (format / type / keyword functions) with fault plans.

Scenarios stay pure JSON: they name behaviours from this fixed library.  Every
behaviour reports to a Collab object, which counts calls per site inside the
current operation and raises at the planned call ("the n-th call of site S in
this operation raises exception E").
"""
from dsim.transport import EXC


class Collab(object):
    """Call counter + *content-triggered* faults for caller-supplied collaborators.

    A collaborator raises whenever it is handed the trigger value of its kind (type-strict
    equality), for the whole run.  The trigger is a pure function of the collaborator's input,
    not of a call count, so a library that legitimately memoises or re-orders collaborator calls
    still sees the same behaviour - the oracle never depends on how often the library calls us.
    """

    def __init__(self, triggers=None):
        self.triggers = dict(triggers or {})   # kind ("format"|"type"|"kw") -> {"value": v, "exc": name}
        self.fired = 0
        self.total_calls = 0

    def begin(self, plan=None):
        pass

    def hit(self, site, instance=None):
        self.total_calls += 1
        t = self.triggers.get(site.split(":", 1)[0])
        if t is not None and type(instance) is type(t["value"]) and instance == t["value"]:
            self.fired += 1
            raise EXC[t["exc"]]("dsim collab fault at %s for %r" % (site, instance))


# ---------------------------------------------------------------- formats
# name -> (listed exception names, variants)
def ambient_state():
    """What user code may reasonably take for granted about the interpreter around a validation."""
    import sys
    import decimal
    import locale
    import os
    import warnings
    import logging
    import socket
    import urllib.parse as up
    import urllib.request as ur
    ctx = decimal.getcontext()
    return (ctx.prec, ctx.rounding, tuple(sorted(str(k) for k, v in ctx.traps.items() if v)),
            len(warnings.filters), os.getcwd(), locale.getlocale(), os.environ.get("TZ"),
            # process-wide registries of the standard library that URL-handling code is tempted to "fix"
            tuple(up.uses_relative), tuple(up.uses_netloc), tuple(up.uses_params),
            getattr(ur, "_opener", None) is None, socket.getdefaulttimeout(),
            logging.getLogger().level, len(logging.getLogger().handlers),
            # interpreter-wide settings (NOT the recursion limit: the stack-exhaustion fault changes it on purpose)
            getattr(sys, "get_int_max_str_digits", int)(),
            sys.flags.dev_mode, sys.getdefaultencoding(), sys.getfilesystemencoding())


FORMATS = {
    "sim-ambient": (),
    "sim-evenlen": ("ValueError",),
    "sim-lower": (),
    "sim-noz": ("ValueError", "KeyError"),
}


def make_format(name, variant, collab):
    site = "format:" + name

    if name == "sim-ambient":
        # a user checker that relies on the ambient interpreter state (decimal context, warning filters, cwd,
        # locale) being what it was when the checker was set up: it rejects every string if that state changed
        base = ambient_state()

        def fn(instance):
            collab.hit(site, instance)
            if not isinstance(instance, str):
                return True
            return ambient_state() == base
    elif name == "sim-evenlen":
        def fn(instance):
            collab.hit(site, instance)
            if not isinstance(instance, str):
                return True
            return len(instance) % 2 == variant % 2
    elif name == "sim-lower":
        def fn(instance):
            collab.hit(site, instance)
            if not isinstance(instance, str):
                return True
            return (instance == instance.lower()) == (variant % 2 == 0)
    elif name == "sim-noz":
        def fn(instance):
            collab.hit(site, instance)
            if not isinstance(instance, str):
                return True
            if ("z" in instance) == (variant % 2 == 0):
                raise ValueError("dsim: listed failure for %r" % (instance,))
            return True
    else:
        raise KeyError(name)
    return fn


def build_format_checker(spec, collab):
    """spec: {"names": [...], "variant": v, "builtin": bool} or None."""
    if spec is None:
        return None
    from jsonschema import FormatChecker
    fc = FormatChecker() if spec.get("builtin") else FormatChecker(formats=())
    for name in spec["names"]:
        raises = tuple(EXC[n] for n in FORMATS[name])
        fc.checks(name, raises=raises)(make_format(name, spec.get("variant", 0), collab))
    return fc


# ---------------------------------------------------------------- types
TYPES = ("even", "nonempty")


def make_type(name, variant, collab):
    site = "type:" + name
    if name == "even":
        def fn(checker, instance):
            collab.hit(site, instance)
            return (isinstance(instance, int) and not isinstance(instance, bool)
                    and instance % 2 == variant % 2)
    elif name == "nonempty":
        def fn(checker, instance):
            collab.hit(site, instance)
            return isinstance(instance, (str, list, dict)) and (len(instance) > 0) == (variant % 2 == 0)
    else:
        raise KeyError(name)
    return fn


# ---------------------------------------------------------------- keywords
KEYWORDS = ("x-marker", "x-each", "x-also")


def make_keyword(name, variant, collab):
    site = "kw:" + name
    from jsonschema.exceptions import ValidationError

    if name == "x-marker":
        def kw(validator, value, instance, schema):
            collab.hit(site, instance)
            tn = type(instance).__name__
            if (tn == value) == (variant % 2 == 0):
                yield ValidationError("x-marker(%d): %r has python type %s" % (variant, instance, tn))
    elif name == "x-each":
        def kw(validator, value, instance, schema):
            collab.hit(site, instance)
            if isinstance(instance, list):
                for i, item in enumerate(instance):
                    for e in validator.descend(item, value, path=i):
                        yield e
            elif isinstance(instance, dict):
                for k, item in instance.items():
                    for e in validator.descend(item, value, path=k):
                        yield e
    elif name == "x-also":
        def kw(validator, value, instance, schema):
            collab.hit(site, instance)
            for e in validator.descend(instance, value, schema_path="x-also"):
                yield e
    else:
        raise KeyError(name)
    return kw


BASES = {"draft3": "Draft3Validator", "draft4": "Draft4Validator",
         "draft6": "Draft6Validator", "draft7": "Draft7Validator"}


def make_override(name, stock):
    """The stock keyword plus one more rule (strings containing "z", arrays of two or more, objects with a member
    "zz" or "c"): a class that
    overrides an existing keyword, as the FAQ's default-filling `properties` does."""
    from jsonschema.exceptions import ValidationError

    def kw(validator, value, instance, schema):
        for e in stock(validator, value, instance, schema) or ():
            yield e
        if (isinstance(instance, str) and "z" in instance) or (isinstance(instance, list) and len(instance) >= 2) or \
                (isinstance(instance, dict) and ("zz" in instance or "c" in instance)):
            yield ValidationError("dsim: overridden %s also rejects %r" % (name, instance))
    return kw


def build_class(draft, custom, collab):
    """custom: {"types": [...], "keywords": [...], "variant": v} or None."""
    import jsonschema
    from jsonschema import validators as V
    base = getattr(jsonschema, BASES[draft])
    if not custom or not (custom.get("types") or custom.get("keywords") or custom.get("override")):
        return base
    v = custom.get("variant", 0)
    kws = dict((k, make_keyword(k, v, collab)) for k in custom.get("keywords", ()))
    ov = custom.get("override")
    if ov and ov in base.VALIDATORS:
        kws[ov] = make_override(ov, base.VALIDATORS[ov])
    tc = None
    if custom.get("types"):
        tc = base.TYPE_CHECKER.redefine_many(
            dict((t, make_type(t, v, collab)) for t in custom["types"]))
    return V.extend(base, validators=kws, type_checker=tc)
