"""Named collaborator behaviours (format / type / keyword functions) with fault plans.

Scenarios stay pure JSON: they name behaviours from this fixed library.  Every
behaviour reports to a Collab object, which counts calls per site inside the
current operation and raises at the planned call ("the n-th call of site S in
this operation raises exception E").
"""
from dsim.transport import EXC


class Collab(object):
    def __init__(self):
        self.counts = {}
        self.plan = None
        self.fired = 0
        self.total_calls = 0

    def begin(self, plan=None):
        self.counts = {}
        self.plan = plan

    def hit(self, site):
        c = self.counts.get(site, 0) + 1
        self.counts[site] = c
        self.total_calls += 1
        p = self.plan
        if p and p["site"] == site and p["n"] == c:
            self.fired += 1
            raise EXC[p["exc"]]("dsim collab fault %s#%d" % (site, c))


# ---------------------------------------------------------------- formats
# name -> (listed exception names, variants)
FORMATS = {
    "sim-evenlen": ("ValueError",),
    "sim-lower": (),
    "sim-noz": ("ValueError", "KeyError"),
}


def make_format(name, variant, collab):
    site = "format:" + name

    if name == "sim-evenlen":
        def fn(instance):
            collab.hit(site)
            if not isinstance(instance, str):
                return True
            return len(instance) % 2 == variant % 2
    elif name == "sim-lower":
        def fn(instance):
            collab.hit(site)
            if not isinstance(instance, str):
                return True
            return (instance == instance.lower()) == (variant % 2 == 0)
    elif name == "sim-noz":
        def fn(instance):
            collab.hit(site)
            if not isinstance(instance, str):
                return True
            if ("z" in instance) == (variant % 2 == 0):
                raise ValueError("dsim: listed failure for %r" % (instance,))
            return True
    else:
        raise KeyError(name)
    return fn


def build_format_checker(spec, collab):
    """spec: {"names": [...], "variant": v, "builtin": bool} or None."""
    if spec is None:
        return None
    from jsonschema import FormatChecker
    fc = FormatChecker() if spec.get("builtin") else FormatChecker(formats=())
    for name in spec["names"]:
        raises = tuple(EXC[n] for n in FORMATS[name])
        fc.checks(name, raises=raises)(make_format(name, spec.get("variant", 0), collab))
    return fc


# ---------------------------------------------------------------- types
TYPES = ("even", "nonempty")


def make_type(name, variant, collab):
    site = "type:" + name
    if name == "even":
        def fn(checker, instance):
            collab.hit(site)
            return (isinstance(instance, int) and not isinstance(instance, bool)
                    and instance % 2 == variant % 2)
    elif name == "nonempty":
        def fn(checker, instance):
            collab.hit(site)
            return isinstance(instance, (str, list, dict)) and (len(instance) > 0) == (variant % 2 == 0)
    else:
        raise KeyError(name)
    return fn


# ---------------------------------------------------------------- keywords
KEYWORDS = ("x-marker", "x-each", "x-also")


def make_keyword(name, variant, collab):
    site = "kw:" + name
    from jsonschema.exceptions import ValidationError

    if name == "x-marker":
        def kw(validator, value, instance, schema):
            collab.hit(site)
            tn = type(instance).__name__
            if (tn == value) == (variant % 2 == 0):
                yield ValidationError("x-marker(%d): %r has python type %s" % (variant, instance, tn))
    elif name == "x-each":
        def kw(validator, value, instance, schema):
            collab.hit(site)
            if isinstance(instance, list):
                for i, item in enumerate(instance):
                    for e in validator.descend(item, value, path=i):
                        yield e
            elif isinstance(instance, dict):
                for k, item in instance.items():
                    for e in validator.descend(item, value, path=k):
                        yield e
    elif name == "x-also":
        def kw(validator, value, instance, schema):
            collab.hit(site)
            for e in validator.descend(instance, value, schema_path="x-also"):
                yield e
    else:
        raise KeyError(name)
    return kw


BASES = {"draft3": "Draft3Validator", "draft4": "Draft4Validator",
         "draft6": "Draft6Validator", "draft7": "Draft7Validator"}


def build_class(draft, custom, collab):
    """custom: {"types": [...], "keywords": [...], "variant": v} or None."""
    import jsonschema
    from jsonschema import validators as V
    base = getattr(jsonschema, BASES[draft])
    if not custom or not (custom.get("types") or custom.get("keywords")):
        return base
    v = custom.get("variant", 0)
    kws = dict((k, make_keyword(k, v, collab)) for k in custom.get("keywords", ()))
    tc = None
    if custom.get("types"):
        tc = base.TYPE_CHECKER.redefine_many(
            dict((t, make_type(t, v, collab)) for t in custom["types"]))
    return V.extend(base, validators=kws, type_checker=tc)
