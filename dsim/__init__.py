"""dsim - deterministic simulation with fault injection for Julian/jsonschema.

Standard library only.  Nothing in this package executes jsonschema code at
import time; library code is only ever executed inside forked children (see
runner.py), so the worker parents stay pristine.
"""
ENGINE_VERSION = 1
