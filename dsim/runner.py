"""Fork isolation: every simulated run executes in a forked child of a pristine parent.

The parent (a pool worker) imports jsonschema once and never executes library
code itself; each child returns one JSON document over a pipe and _exit()s.
A child that times out, dies or answers garbage is a HARNESS error - never a
pass and never a violation.
"""
import faulthandler
import json
import os
import select
import signal
import sys
import time
import traceback

CHILD_TIMEOUT = float(os.environ.get("DSIM_CHILD_TIMEOUT", "40"))


class HarnessError(Exception):
    pass


def _child_prepare():
    """Common child prologue: no GC unless scheduled, network seams sealed."""
    import gc
    gc.disable()
    gc.freeze()  # pre-existing objects are never scanned: scheduled collections stay cheap
    from dsim import transport
    transport.seal_network()


def _call_in_fresh_thread(fn, arg):
    """Run fn(arg) in a new thread: its Python stack then starts at the same (tiny) depth in a pool worker, in the
    minimiser and in the replay tool, so that a RecursionError - the one 'fault' whose position depends on the
    absolute stack depth - strikes at the same place everywhere."""
    import threading
    box = {}

    def body():
        try:
            box["res"] = fn(arg)
        except BaseException as e:          # re-raised in the caller below
            box["exc"] = e
    threading.stack_size(256 * 1024 * 1024)
    t = threading.Thread(target=body, name="dsim-run")
    t.start()
    t.join()
    if "exc" in box:
        raise box["exc"]
    return box["res"]


def fork_call(fn, arg, timeout=None):
    """Run fn(arg) in a forked child; return its JSON-able result.

    Raises HarnessError on timeout / crash / malformed answer.
    """
    timeout = CHILD_TIMEOUT if timeout is None else timeout
    r, w = os.pipe()
    sys.stdout.flush()
    sys.stderr.flush()
    pid = os.fork()
    if pid == 0:
        code = 0
        try:
            os.close(r)
            faulthandler.dump_traceback_later(max(1.0, timeout - 1.0), exit=True)
            try:
                _child_prepare()
                res = _call_in_fresh_thread(fn, arg)
                faulthandler.cancel_dump_traceback_later()      # the run is over: never kill a child that is answering
                data = json.dumps({"ok": res}, default=repr).encode()
            except BaseException:
                data = json.dumps({"harness_error": traceback.format_exc()[-4000:]}).encode()
            view = memoryview(data)
            while view:
                n = os.write(w, view)
                view = view[n:]
            os.close(w)
        except BaseException:
            code = 3
        finally:
            os._exit(code)
    os.close(w)
    chunks = []
    t_start = time.monotonic()
    deadline = t_start + timeout + 5.0        # (the in-child watchdog fires first; this is the backstop)
    timed_out = False
    try:
        while True:
            left = deadline - time.monotonic()
            if left <= 0:
                timed_out = True
                break
            ready, _, _ = select.select([r], [], [], min(left, 1.0))
            if not ready:
                continue
            b = os.read(r, 1 << 16)
            if not b:
                break
            chunks.append(b)
    finally:
        os.close(r)
    if timed_out:
        try:
            os.kill(pid, signal.SIGKILL)
        except OSError:
            pass
    _, status = os.waitpid(pid, 0)
    if timed_out:
        raise HarnessError("child timed out after %.0fs" % timeout)
    if status == 256 and (not chunks or time.monotonic() - t_start >= timeout - 2.0):
        # faulthandler.dump_traceback_later(..., exit=True) fired inside the child just before our own deadline
        raise HarnessError("child timed out (in-child watchdog) after %.0fs" % timeout)
    if status != 0:
        raise HarnessError("child exited with status %r; partial=%r" % (status, b"".join(chunks)[:300]))
    try:
        doc = json.loads(b"".join(chunks).decode())
    except Exception as e:  # malformed
        raise HarnessError("malformed child answer: %r" % (e,))
    if "harness_error" in doc:
        raise HarnessError("exception in harness code inside child:\n" + doc["harness_error"])
    return doc["ok"]
