"""C20 - the draft is chosen from $schema, consistently in validate(), CLI and helpers.

History part (decided here): registration is process-global mutable state.  A
generated history registers new classes (create(version=...), validates()) with
fresh metaschema ids - also while an iterator of an already selected class is
suspended, and including registrations that fail - and interleaves dispatches:
validator_for over every spelling, jsonschema.validate(), and CLI runs on the
simulated file system.  A reference model (dict: id without empty fragment ->
class) predicts every selection, warning, verdict and exit status.
Input part (all `$schema` spellings x instances on which drafts disagree) is pure
and only *sampled* here as the workload.
"""
import copy
import json

from dsim.canon import digest, jdump

PROPERTY = "C20"
QUICK_RUNS = 6000
THOROUGH_RUNS = 200000
RULE = ("scenario = history of 4-16 operations: registrations (create(version=fresh) / validates(fresh) on classes with "
        "fresh metaschema ids and a base draft's or a variant keyword table, failing registrations), dispatches "
        "(validator_for over each registered id with/without '#', unknown URIs, non-URI strings, missing $schema, "
        "boolean schemas, with/without default=), jsonschema.validate() with/without cls, CLI runs with/without "
        "--validator, suspend/resume of an iterator around registrations; schemas/instances from a battery on which "
        "drafts disagree; non-trivial = >=1 successful registration followed by >=1 dispatch on an OLDER id and >=1 on "
        "the NEW id, with a battery pair on which the two classes disagree; distinct = distinct scenario digests")
STATE_MEASURE = "hash of (sorted registered ids in the model, number of suspended iterators, last operation kind) per step"
REQUIRED_PROBES = ("dispatch_on_id_before_its_registration", "dispatch_on_older_id_after_registration", "dispatch_on_new_id", "unknown_uri_warned",
                   "cli_runs", "validate_calls", "failed_registration_checked", "resume_after_registration",
                   "classes_disagreed_on_battery")
COMPONENTS = {
    "real": ["jsonschema/validators.py (validates, create, validator_for, validate, registries), _utils.URIDict, cli.py"],
    "stubs": ["file system + stdio for the CLI runs", "variant keyword functions", "network sealed"],
}
ASSUMPTIONS = [
    "sampling, not proof; the input half of the property ($schema spellings x disagreement instances) is sampled as workload, not decided",
    "re-registering an id that is already registered (extend(DraftN, version=...)) is outside the property's quantifier and never generated",
]

DRAFT_IDS = {
    "draft3": "http://json-schema.org/draft-03/schema",
    "draft4": "http://json-schema.org/draft-04/schema",
    "draft6": "http://json-schema.org/draft-06/schema",
    "draft7": "http://json-schema.org/draft-07/schema",
}
UNKNOWN = ["http://json-schema.org/draft-09/schema#", "urn:dsim:nobody", "not a uri", "", "http://json-schema.org/draft-07/schema#x",
           "HTTP://json-schema.org/draft-99/schema",
           # near misses of registered ids: well-known URIs that are NOT the id of any registered metaschema
           "http://json-schema.org/draft-04/hyper-schema#", "http://json-schema.org/draft-03/hyper-schema",
           "http://json-schema.org/draft-06/hyper-schema#", "http://json-schema.org/draft-07/hyper-schema",
           "https://json-schema.org/draft-07/schema#", "https://json-schema.org/draft-04/schema",
           "http://json-schema.org/draft-07/schema/", "http://json-schema.org/draft-04/schema/#",
           "http://JSON-SCHEMA.ORG/draft-06/schema#", "http://json-schema.org/schema#",
           "http://json-schema.org/draft-03/schema?v=1", "//json-schema.org/draft-07/schema#",
           "http://json-schema.org/draft-04/schema#/definitions", "http://www.json-schema.org/draft-04/schema#",
           "http://json-schema.org/draft/2019-09/schema", "http://json-schema.org/draft-4/schema#",
           # strings that are not even parsable as URIs (urlsplit refuses them): unknown all the same
           "http://[not-a-host/schema#", "http://[::1/draft-07/schema", "//[x"]
BATTERY = [
    ({"minimum": 5, "exclusiveMinimum": True}, 5),
    ({"exclusiveMinimum": 5}, 5),
    ({"type": "integer"}, 1.0),
    ({"const": 1}, 2),
    ({"contains": {"type": "string"}}, [1]),
    ({"if": {"type": "integer"}, "then": {"minimum": 10}}, 5),
    ({"properties": {"a": False}}, {"a": 1}),
    ({"properties": {"a": {"required": True}}}, {}),
    ({"divisibleBy": 2}, 3),
    ({"extends": {"minimum": 5}}, 3),
    ({"disallow": "string"}, "s"),
    ({"type": "any"}, 1),
    ({"minimum": 5}, 3),
    ({"minimum": 5}, 7),
    ({"anyOf": [{"minimum": 5}, {"type": "string"}], "maxLength": 1}, 3),
    ({"id": "http://ida.test/r.json", "$id": "http://idb.test/r.json",
      "properties": {"a": {"$ref": "http://ida.test/r.json#/definitions/s"},
                     "b": {"$ref": "http://idb.test/r.json#/definitions/s"}},
      "definitions": {"s": {"type": "string"}}}, {"a": 1}),
    ({"id": "http://ida.test/r.json", "$id": "http://idb.test/r.json",
      "properties": {"a": {"$ref": "http://ida.test/r.json#/definitions/s"},
                     "b": {"$ref": "http://idb.test/r.json#/definitions/s"}},
      "definitions": {"s": {"type": "string"}}}, {"b": 1}),
    ({"required": ["a"]}, {}),
    ({"propertyNames": {"maxLength": 1}}, {"abc": 1}),
]


def generate(rng, tier="quick"):
    n = rng.randint(4, 16)
    kinds = ["create", "create", "validates", "create_illegal", "create_mismatched", "create_nested", "extend_version",
             "nested_dialect",
             "validator_for", "validator_for", "validate",
             "validate", "cli", "suspend", "resume", "validate_cls"]
    enabled = [k for k in kinds if rng.random() < 0.8] or kinds
    if "create" not in enabled and "validates" not in enabled:
        enabled.append("create")
    ops = []
    for i in range(n):
        k = rng.choice(enabled)
        op = {"op": k, "a": rng.randrange(1 << 16), "b": rng.randrange(len(BATTERY)), "v": rng.randrange(4),
              "hash": rng.random() < 0.5, "base": rng.choice(["draft3", "draft4", "draft6", "draft7"])}
        if k in ("create", "validates"):
            op["id_hash"] = rng.random() < 0.5           # the registered id itself carries a trailing '#'
            op["meta"] = rng.choice(["open", "base"])
            op["variant"] = rng.choice([None, "minimum", "type", "maxLength"])
        if k == "validator_for":
            op["spelling"] = rng.choice(["known", "known", "known", "unknown", "future", "missing", "bool"])
            op["default"] = rng.choice([None, None, "draft3", "draft4", "new"])
            # the schema as another kind of mapping: dict subclasses whose missing keys materialise on a read
            op["wrap"] = rng.choice([None, None, None, None, "defaultdict_str", "defaultdict_tree", "defaultdict_list",
                                     "ordered"])
        if k in ("validate", "cli", "validate_cls", "suspend"):
            op["spelling"] = rng.choice(["known", "known", "known", "unknown", "future", "missing"])
            op["extra"] = rng.choice([None, None, "format_checker", "bool_schema", "resolver"])
        if k == "cli":
            op["validator"] = rng.choice([None, None, "Draft3Validator", "jsonschema.Draft4Validator", "Draft6Validator"])
            op["pretty"] = rng.random() < 0.2
        ops.append(op)
    return {"property": PROPERTY, "ops": ops}


def execute(scn):
    import io
    import warnings
    import jsonschema
    from jsonschema import validators as V, cli
    from jsonschema import exceptions as X
    from dsim.canon import canon_error
    from dsim.sim import canon_exc

    stats = {}

    def probe(name, n=1):
        stats[name] = stats.get(name, 0) + n

    drafts = {"draft3": jsonschema.Draft3Validator, "draft4": jsonschema.Draft4Validator,
              "draft6": jsonschema.Draft6Validator, "draft7": jsonschema.Draft7Validator}
    LATEST = jsonschema.Draft7Validator
    model = dict((DRAFT_IDS[k], v) for k, v in drafts.items())     # id without empty fragment -> class
    born = dict((k, -1) for k in model)
    notes = dict((id(v), k) for k, v in drafts.items())
    violations = []
    log = []
    states = []
    suspended = []
    last_registration = -1
    new_ids = []
    older_dispatch = new_dispatch = disagreed = False

    def strip(u):
        return u[:-1] if u.endswith("#") else u

    def model_select(schema, default=None):
        """-> (class, warns)"""
        d = LATEST if default is None else default
        if schema is True or schema is False or "$schema" not in schema:
            return d, False
        u = strip(schema["$schema"])
        if u in model:
            return model[u], False
        return LATEST, True

    def observed_select(schema, default=None):
        with warnings.catch_warnings(record=True) as w:
            warnings.simplefilter("always")
            cls = V.validator_for(schema) if default is None else V.validator_for(schema, default=default)
        dep = [x for x in w if issubclass(x.category, DeprecationWarning)]
        return cls, len(dep)

    def errors_of(cls, schema, instance, **kw):
        """canonical verdict of a class on (schema, instance): list of errors, or raised class name"""
        try:
            cls.check_schema(schema)
        except X.SchemaError:
            return {"raised": "SchemaError"}
        except Exception as x:
            return {"raised": type(x).__name__}
        try:
            return {"errors": [canon_error(e) for e in
                               cls(copy.deepcopy(schema), **kw).iter_errors(copy.deepcopy(instance))]}
        except Exception as x:
            return {"raised": type(x).__name__}

    def flat(errs):
        out = []
        for e in errs:
            out.append(jdump(dict(e, context=[])))
            if not (e["context"] and isinstance(e["context"][0], str)):      # (not a "big-context" digest)
                out.extend(flat(e["context"]))
        return out

    def spelled(op, step):
        """choose a $schema value; returns (value or None, id-or-None)"""
        sp = op.get("spelling")
        if sp == "missing":
            return None, None
        if sp == "future":
            # an id that a LATER operation of this history will register: unknown now, known afterwards
            for j in range(step + 1, len(scn["ops"])):
                if scn["ops"][j]["op"] in ("create", "validates"):
                    probe("dispatch_on_id_before_its_registration")
                    return uid_of(scn["ops"][j], j) + ("#" if op["hash"] else ""), None
            sp = "unknown"
        if sp == "unknown":
            return UNKNOWN[op["a"] % len(UNKNOWN)], None
        ids = sorted(model, key=lambda u: (born[u], u))
        # bias towards the newest and the oldest ids
        r = op["a"] % (len(ids) + 2)
        u = ids[-1] if r >= len(ids) else ids[r]
        return u + ("#" if op["hash"] else ""), u

    def note_dispatch(u, step):
        nonlocal older_dispatch, new_dispatch
        if u is None or last_registration < 0:
            return
        if born[u] < last_registration:
            older_dispatch = True
            probe("dispatch_on_older_id_after_registration")
        if born[u] >= 0:
            new_dispatch = True
            probe("dispatch_on_new_id")

    def check_registry(step, opname):
        for u, cls in sorted(model.items(), key=lambda kv: kv[0]):
            for s in (u, u + "#"):
                got, warned = observed_select({"$schema": s})
                if got is not cls or warned:
                    violations.append({"oracle": "registered-id-no-longer-selects-its-class", "where": step, "op": opname,
                                       "detail": {"$schema": s, "registered_at": born[u], "got": getattr(got, "__name__", repr(got)),
                                                  "want": getattr(cls, "__name__", repr(cls)), "warned": warned}})
                    return

    def variant_kw(name):
        def kw(validator, value, instance, schema):
            yield X.ValidationError("dsim variant keyword %s rejects %r" % (name, instance))
        return kw

    # at most one registration per history uses the bare-fragment id (same-id re-registration is never generated)
    bare_step = next((j for j, o in enumerate(scn["ops"])
                      if o["op"] in ("create", "validates") and o["a"] % 11 == 5), None)

    def uid_of(op, step):
        # ids are deliberately *related* to each other: URL forms that differ by a trailing slash, by one more
        # path segment, by a shared prefix - distinct ids all the same, each must select its own class only
        form = op["a"] % 5
        n = step
        if step == bare_step:
            return "#"      # a metaschema whose id is a bare empty fragment: truthy, yet it normalises to ""
        if form == 0:
            return "http://dsim.test/meta/%d" % n
        if form == 1:
            return "http://dsim.test/meta/%d/" % max(0, n - 1)
        if form == 2:
            return "http://dsim.test/meta/%d/schema" % max(0, n - 2)
        if form == 3:
            return "http://dsim.test/meta/%dx%d" % (max(0, n - 1), n % 10)
        return "urn:dsim:c20:meta-%d-%d" % (step, op["a"] % 97)

    def make_class(op, step, version):
        base = drafts[op["base"]]
        uid = uid_of(op, step)
        if op["id_hash"] and uid != "#":
            uid += "#"
        idkw = "id" if op["base"] in ("draft3", "draft4") else "$id"
        if op["meta"] == "base":
            meta = dict(base.META_SCHEMA)
            meta.pop("id", None)
            meta.pop("$id", None)
        else:
            meta = {}
        meta[idkw] = uid
        kws = dict(base.VALIDATORS)
        if op["variant"]:
            kws[op["variant"]] = variant_kw(op["variant"])
        cls = V.create(meta_schema=meta, validators=kws, version=version, type_checker=base.TYPE_CHECKER,
                       id_of=base.ID_OF)
        return cls, strip(uid)

    def sim_cli(schema, instance, op):
        from dsim.props import c19
        tok = "%04x" % (op["a"] & 0xffff)
        sp, ip = "schema-%s.json" % tok, "inst-%s.json" % tok
        fmt = c19.DELIM_FORMATS[0]
        s2 = {"fs": {sp: {"bytes": c19.b64(json.dumps(schema).encode()), "fault": None},
                     ip: {"bytes": c19.b64(json.dumps(instance).encode()), "fault": None}},
              "schema_path": sp, "instances": [ip], "stdin": False, "output": "pretty" if op.get("pretty") else "plain",
              "error_format": None if op.get("pretty") else fmt, "validator": op.get("validator"), "base_uri": None}
        st = {}
        sim_open, textfile, opened = c19.make_fs(s2, st)
        cli.open = sim_open
        out, err = io.StringIO(), io.StringIO()
        status, escaped = None, None
        try:
            with warnings.catch_warnings():
                warnings.simplefilter("ignore")
                status = cli.run(cli.parse_args(c19.argv_of(s2)), stdout=out, stderr=err, stdin=io.StringIO(""))
        except SystemExit as x:
            status = x.code
        except Exception as x:
            escaped = type(x).__name__
        import re
        recs = re.findall(c19.RS + "[^" + c19.RS + c19.US + "]*" + c19.US, err.getvalue())
        return status, escaped, sorted(recs), fmt, sp, ip, err.getvalue()

    for step, op in enumerate(scn["ops"]):
        k = op["op"]
        try:
            if k in ("create", "validates"):
                # version names are free text; some collide after title-casing or look like a draft's name
                version = ["dsim c20 v%d" % step, "Dsim C20 V%d" % max(0, step - 1), "dsim  c20 v%d" % step,
                           ["draft 4", "Draft 7", "draft8", "draft 3", "Draft 2019-09", "draft 6", "draft-08",
                            "DRAFT 12"][step % 8] + " " * (step // 8)][op["v"] % 4]
                if k == "create":
                    cls, uid = make_class(op, step, version)
                else:
                    cls, uid = make_class(op, step, None)
                    if op["v"] >= 2:
                        # the documented way to give a derived class a metaschema of its own: replace META_SCHEMA
                        # on the class AFTER it was made (here: same content, the id it is going to be known by),
                        # then register it by hand.  Until then it carried a provisional id.
                        final = dict(cls.META_SCHEMA)
                        idkw = "id" if op["base"] in ("draft3", "draft4") else "$id"
                        provisional = dict(final)
                        provisional[idkw] = "urn:dsim:c20:provisional-%d" % step
                        cls = V.create(meta_schema=provisional, validators=dict(cls.VALIDATORS),
                                       type_checker=cls.TYPE_CHECKER, id_of=cls.ID_OF)
                        cls.META_SCHEMA = final
                        probe("metaschema_replaced_before_registration")
                    # registered ids so far unchanged by the mere creation of an unregistered class
                    check_registry(step, k + ":before")
                    V.validates(version)(cls)
                model[uid] = cls
                born[uid] = step
                notes[id(cls)] = "new@%d<%s%s" % (step, op["base"], "+" + op["variant"] if op["variant"] else "")
                new_ids.append(uid)
                last_registration = step
                if suspended:
                    probe("registration_while_iterator_suspended")
                check_registry(step, k)
            elif k == "nested_dialect":
                # an explicitly given class decides the WHOLE validation: a subschema (or a referenced definition) that
                # carries a `$schema` of its own - another registered dialect - is still evaluated by the given class.
                # The class is an unregistered extension whose `minimum` always rejects, so the expected verdict is
                # known without asking the library: the instance reaches a `minimum` below the root.
                base = drafts[op["base"]]
                ext = V.extend(base, validators={"minimum": variant_kw("minimum")})
                inner = DRAFT_IDS[["draft7", "draft4", "draft6", "draft3"][op["a"] % 4]] + ("#" if op["hash"] else "")
                sub = {"$schema": inner, "minimum": 0}
                if op["v"] % 2:
                    schema = {"properties": {"a": {"$ref": "#/definitions/d"}}, "definitions": {"d": sub}}
                else:
                    schema = {"properties": {"a": sub}}
                if op["v"] >= 2:
                    schema["$schema"] = DRAFT_IDS[op["base"]]
                probe("explicit_class_over_nested_dialect")
                got = []
                try:
                    with warnings.catch_warnings():
                        warnings.simplefilter("ignore")
                        got.append(sorted(e.message for e in ext(copy.deepcopy(schema)).iter_errors({"a": 5})))
                        try:
                            jsonschema.validate({"a": 5}, copy.deepcopy(schema), cls=ext)
                            got.append([])
                        except X.ValidationError as x:
                            got.append([x.message])
                except Exception as x:
                    got.append(["raised " + type(x).__name__])
                if not all(len(g) == 1 and g[0].startswith("dsim variant keyword minimum") for g in got):
                    violations.append({"oracle": "explicit-class-not-applied-below-the-root", "where": step, "op": k,
                                       "detail": {"schema": schema, "got": got}})
            elif k == "extend_version":
                # extend(parent, ..., version=...) registers the extension through create(version=...) under ITS OWN
                # metaschema id - which is its parent's: from now on that id selects the extension
                if op["v"] % 2 and new_ids:
                    u = new_ids[op["a"] % len(new_ids)]
                    parent = model[u]
                else:
                    u = DRAFT_IDS[op["base"]]
                    parent = model[u]
                ext = V.extend(parent, validators={"minimum": variant_kw("minimum")},
                               version="dsim c20 ext %d" % step)
                model[u] = ext
                notes[id(ext)] = "ext@%d<%s" % (step, notes.get(id(parent), getattr(parent, "__name__", "?")))
                if born.get(u, -1) < 0:
                    born[u] = step          # (ops[step]["base"] names the draft this id behaves like)
                last_registration = step
                probe("extension_registered_under_its_parents_id")
                check_registry(step, k)
            elif k == "create_nested":
                # the user's id function - which the library calls WHILE it registers class X - itself registers
                # another class Y (re-entrant registration): both must end up selectable
                base = drafts[op["base"]]
                idkw = "id" if op["base"] in ("draft3", "draft4") else "$id"
                uid_x, uid_y = "urn:dsim:c20:nested-x-%d" % step, "urn:dsim:c20:nested-y-%d" % step
                inner = {}

                def id_of_x(schema, base=base, idkw=idkw, inner=inner, uid_y=uid_y, step=step):
                    # (defaults bind THIS step's values: the class lives on while the loop variables move on)
                    if not inner:
                        inner["cls"] = None
                        my = {idkw: uid_y}
                        inner["cls"] = V.create(meta_schema=my, validators=dict(base.VALIDATORS),
                                                version="dsim c20 nested y %d" % step,
                                                type_checker=base.TYPE_CHECKER, id_of=base.ID_OF)
                    return base.ID_OF(schema)
                kws = dict(base.VALIDATORS)
                kws["maxLength"] = variant_kw("maxLength")
                cls_x = V.create(meta_schema={idkw: uid_x}, validators=kws, version="dsim c20 nested x %d" % step,
                                 type_checker=base.TYPE_CHECKER, id_of=id_of_x)
                for u_, c_ in ((uid_y, inner["cls"]), (uid_x, cls_x)):
                    model[u_] = c_
                    born[u_] = step
                    notes[id(c_)] = "nested@%d<%s" % (step, op["base"])
                    new_ids.append(u_)
                last_registration = step
                probe("reentrant_registration")
                check_registry(step, k)
            elif k == "create_mismatched":
                # a class built from a BUILT-IN draft's metaschema but with the id function of the other family
                # has no metaschema id of its own (ID_OF(META_SCHEMA) == ""): registering it must not bind - let
                # alone rebind - any `$schema` id
                base = drafts[op["base"]]
                other = drafts["draft7" if op["base"] in ("draft3", "draft4") else "draft4"]
                kws = dict(base.VALIDATORS)
                kws["minimum"] = variant_kw("minimum")
                cls = V.create(meta_schema=dict(base.META_SCHEMA), validators=kws, version="dsim c20 mismatched %d" % step,
                               type_checker=base.TYPE_CHECKER, id_of=other.ID_OF)
                notes[id(cls)] = "mismatched@%d<%s" % (step, op["base"])
                probe("registration_without_own_id")
                check_registry(step, k)
            elif k == "create_illegal":
                probe("failed_registration_checked")
                try:
                    V.create(meta_schema={"$id": "urn:dsim:c20:never-%d" % step, "id": "urn:dsim:c20:never-%d" % step},
                             default_types={"integer": int}, type_checker=drafts["draft4"].TYPE_CHECKER,
                             version="dsim c20 illegal %d" % step)
                    violations.append({"oracle": "illegal-create-did-not-raise", "where": step, "op": k, "detail": {}})
                except TypeError:
                    pass
                got, warned = observed_select({"$schema": "urn:dsim:c20:never-%d" % step})
                if got is not LATEST or not warned:
                    violations.append({"oracle": "failed-registration-left-a-registration", "where": step, "op": k,
                                       "detail": {"got": getattr(got, "__name__", repr(got)), "warned": warned}})
                check_registry(step, k)
            elif k == "validator_for":
                default = None
                if op.get("default") in drafts:
                    default = drafts[op["default"]]
                elif op.get("default") == "new" and new_ids:
                    default = model[new_ids[op["a"] % len(new_ids)]]
                if op["spelling"] == "bool":
                    schema, u = bool(op["v"] % 2), None
                else:
                    val, u = spelled(op, step)
                    schema = {"type": "object"}
                    if val is not None:
                        schema["$schema"] = val
                want, want_warn = model_select(schema, default)
                if op["v"] == 3 and isinstance(schema, dict):
                    import types as _types
                    schema = _types.MappingProxyType(schema)     # "collections.abc.Mapping or bool", says the docstring
                    probe("validator_for_on_non_dict_mapping")
                elif op.get("wrap") and isinstance(schema, dict):
                    import collections

                    def _tree():
                        return collections.defaultdict(_tree)
                    plain = schema
                    schema = {"defaultdict_str": collections.defaultdict(str), "defaultdict_tree": _tree(),
                              "defaultdict_list": collections.defaultdict(list),
                              "ordered": collections.OrderedDict()}[op["wrap"]]
                    schema.update(plain)
                    probe("validator_for_on_dict_subclass")
                before = dict(schema) if not isinstance(schema, bool) else schema
                try:
                    got, warned = observed_select(schema, default)
                except Exception as x:
                    violations.append({"oracle": "validator_for-raised", "where": step, "op": k,
                                       "detail": {"mapping_type": type(schema).__name__, "exc": type(x).__name__,
                                                  "msg": str(x)[:200]}})
                    got, warned = want, (1 if want_warn else 0)
                if not isinstance(schema, bool) and dict(schema) != before:
                    violations.append({"oracle": "validator_for-modified-the-schema", "where": step, "op": k,
                                       "detail": {"mapping_type": type(schema).__name__, "before": sorted(before),
                                                  "after": sorted(dict(schema))}})
                    got, warned = want, (1 if want_warn else 0)
                note_dispatch(u, step)
                if want_warn:
                    probe("unknown_uri_warned")
                if got is not want:
                    violations.append({"oracle": "validator_for-selected-wrong-class", "where": step, "op": k,
                                       "detail": {"schema": dict(schema) if not isinstance(schema, bool) else schema,
                                                  "mapping_type": type(schema).__name__,
                                                  "default": op.get("default"),
                                                  "got": notes.get(id(got), repr(got)), "want": notes.get(id(want))}})
                elif bool(warned) != want_warn:
                    violations.append({"oracle": "validator_for-warning-mismatch", "where": step, "op": k,
                                       "detail": {"schema": dict(schema) if not isinstance(schema, bool) else schema,
                                                  "warnings": warned, "want_warning": want_warn}})
            elif k in ("validate", "validate_cls", "cli", "suspend"):
                body, instance = BATTERY[op["b"]]
                schema = copy.deepcopy(body)
                val, u = spelled(op, step)
                if val is not None:
                    schema["$schema"] = val
                extra_kwargs = {}
                if op.get("extra") == "format_checker" and k in ("validate", "validate_cls"):
                    schema["properties"] = dict(schema.get("properties", {}), f={"format": "ipv4"})
                    if isinstance(instance, dict):
                        instance = dict(instance, f="not an ip")
                    extra_kwargs = {"format_checker": jsonschema.FormatChecker()}
                elif op.get("extra") == "resolver" and k in ("validate", "validate_cls"):
                    # the schema is a fragment lifted out of a larger document of ANOTHER dialect, validated with a resolver
                    # for that document: the class still comes from the schema's own $schema (or the latest draft)
                    other = DRAFT_IDS[["draft3", "draft4", "draft6", "draft7"][op["a"] % 4]]
                    if new_ids and op["v"] % 2:
                        other = new_ids[op["a"] % len(new_ids)]
                    referrer = {"$schema": other + ("#" if op["hash"] else ""), "definitions": {"x": {}}}
                    extra_kwargs = {"resolver": V.RefResolver(base_uri="", referrer=referrer)}
                    if op["v"] >= 2:
                        schema.pop("$schema", None)
                        u = None
                    probe("validate_with_resolver_of_another_dialect")
                elif op.get("extra") == "bool_schema" and k in ("validate", "validate_cls", "cli"):
                    schema, u = bool(op["v"] % 2), None
                want, _ = model_select(schema)
                if u is not None and born[u] >= 0:
                    base_cls = drafts[scn["ops"][born[u]]["base"]]
                    a, b = errors_of(want, schema, instance), errors_of(base_cls, schema, instance)
                    if jdump(a) != jdump(b):
                        disagreed = True
                        probe("classes_disagreed_on_battery")
                elif u is not None:
                    a, b = errors_of(want, schema, instance), errors_of(LATEST, schema, instance)
                    if jdump(a) != jdump(b):
                        disagreed = True
                        probe("classes_disagreed_on_battery")
                note_dispatch(u, step)
                if k in ("validate", "validate_cls"):
                    probe("validate_calls")
                    explicit = None
                    if k == "validate_cls":
                        explicit = drafts[op["base"]] if op["v"] % 2 or not new_ids else model[new_ids[op["a"] % len(new_ids)]]
                        want = explicit
                    exp = errors_of(want, schema, instance, **extra_kwargs)
                    got = None
                    try:
                        with warnings.catch_warnings():
                            warnings.simplefilter("ignore")
                            if explicit is None:
                                jsonschema.validate(copy.deepcopy(instance), copy.deepcopy(schema), **extra_kwargs)
                            else:
                                jsonschema.validate(copy.deepcopy(instance), copy.deepcopy(schema), cls=explicit,
                                                    **extra_kwargs)
                        got = {"ok": True}
                    except X.ValidationError as x:
                        got = {"error": jdump(dict(canon_error(x), context=[]))}
                    except Exception as x:
                        got = {"raised": type(x).__name__}
                    bad = None
                    if "raised" in exp:
                        if got.get("raised") != exp["raised"]:
                            bad = "exception differs"
                    elif not exp["errors"]:
                        if not got.get("ok"):
                            bad = "selected class accepts but validate() raised"
                    else:
                        if "error" not in got:
                            bad = "selected class rejects but validate() did not raise ValidationError"
                        elif got["error"] not in flat(exp["errors"]):
                            bad = "validate() raised an error the selected class does not report"
                    if bad:
                        violations.append({"oracle": "validate-disagrees-with-selected-class", "where": step, "op": k,
                                           "detail": {"why": bad, "schema": schema, "instance": instance,
                                                      "selected": notes.get(id(want)), "got": got,
                                                      "explicit_cls": explicit is not None}})
                elif k == "cli":
                    probe("cli_runs")
                    if op.get("validator"):
                        want = getattr(jsonschema, op["validator"].rsplit(".", 1)[-1])
                    exp = errors_of(want, schema, instance)
                    status, escaped, recs, fmt, sp, ip, errtext = sim_cli(schema, instance, op)
                    if "raised" in exp and exp["raised"] != "SchemaError":
                        if status == 0 and not escaped:
                            violations.append({"oracle": "cli-status-0-where-library-raises", "where": step, "op": k,
                                               "detail": {"schema": schema, "raised": exp["raised"]}})
                    else:
                        ok_expected = "errors" in exp and not exp["errors"]
                        if escaped or bool(status) == ok_expected:
                            violations.append({"oracle": "cli-status-disagrees-with-selected-class", "where": step, "op": k,
                                               "detail": {"schema": schema, "instance": instance, "status": status,
                                                          "escaped": escaped, "selected": notes.get(id(want)),
                                                          "validator_option": op.get("validator")}})
                        elif not op.get("pretty") and "errors" in exp:
                            wantrecs = sorted(c for c in (
                                fmt.format(file_name=ip, error=e) for e in
                                want(copy.deepcopy(schema)).iter_errors(copy.deepcopy(instance))))
                            if recs != wantrecs:
                                violations.append({"oracle": "cli-errors-differ-from-selected-class", "where": step, "op": k,
                                                   "detail": {"schema": schema, "instance": instance, "got": recs[:3],
                                                              "want": wantrecs[:3], "selected": notes.get(id(want))}})
                else:  # suspend
                    body2 = {"items": {"type": "integer", "minimum": 5}, "maxItems": 1}
                    if val is not None:
                        body2["$schema"] = val
                    sel, _ = model_select(body2)
                    inst2 = [1.0, "x", 2]
                    full = sorted(jdump(canon_error(e)) for e in sel(copy.deepcopy(body2)).iter_errors(copy.deepcopy(inst2)))
                    try:
                        with warnings.catch_warnings():
                            warnings.simplefilter("ignore")
                            chosen = V.validator_for(body2)
                    except Exception as x:
                        violations.append({"oracle": "validator_for-raised", "where": step, "op": k,
                                           "detail": {"mapping_type": "dict", "exc": type(x).__name__, "msg": str(x)[:200]}})
                        chosen = sel
                    it = chosen(copy.deepcopy(body2)).iter_errors(copy.deepcopy(inst2))
                    first = [jdump(canon_error(e)) for e in [next(it)]] if full else []
                    suspended.append({"it": it, "first": first, "full": full, "step": step})
            elif k == "resume":
                if suspended:
                    s = suspended.pop(op["a"] % len(suspended))
                    rest = [jdump(canon_error(e)) for e in s["it"]]
                    if last_registration > s["step"]:
                        probe("resume_after_registration")
                    if sorted(s["first"] + rest) != s["full"]:
                        violations.append({"oracle": "suspended-iterator-disturbed-by-registration", "where": step, "op": k,
                                           "detail": {"suspended_at": s["step"]}})
            else:
                raise AssertionError(k)
        except AssertionError:
            raise
        log.append([step, k, len(model)])
        states.append(digest([sorted(model), len(suspended), k]))
        if violations:
            break
    stats["ops"] = len(scn["ops"])
    stats["registrations"] = len(new_ids)
    stats["fault:failed_registration"] = stats.get("failed_registration_checked", 0)
    nontrivial = bool(new_ids and older_dispatch and new_dispatch and disagreed)
    return {"violations": violations, "nontrivial": nontrivial, "stats": stats, "steps": len(log),
            "log_digest": digest(log), "states": states, "sched": None}


def run(scn, fork_call):
    return fork_call(execute, scn)


def violation_class(v):
    return "C20/" + v["oracle"]


def shrink(scn):
    from dsim.minimise import shrink_ops
    for c in shrink_ops(scn, "ops"):
        yield c
    for i, op in enumerate(scn["ops"]):
        for f, val in (("variant", None), ("default", None), ("validator", None), ("pretty", False), ("hash", False),
                       ("id_hash", False), ("meta", "open"), ("a", 0), ("v", 0)):
            if f in op and op[f] != val:
                c = copy.deepcopy(scn)
                c["ops"][i][f] = val
                yield c


def sample_view(scn):
    return {"ops": scn["ops"]}


def known_finding(v, scn):
    return None
