"""C18 - validators that share no resolver are independent under any interleaving.

2-3 actors (validator + own resolver + own transport + own collaborators) are built
from *collision worlds*: same base URI, same $ref strings, same remote URLs, same
regexes, same format / type / keyword names - different definitions, documents and
checkers behind them.  Their programs are run
  coop     interleaved one iterator next() at a time by an explicit schedule (list of
           actor ids; -1 = run the garbage collector), or
  preempt  concurrently in real threads, parked on semaphores, exactly one holding the
           baton; sys.settrace line events inside jsonschema/*.py are the pre-emption
           points and the schedule lists (traced step index -> thread | gc).
Oracle: every operation's outcome equals the outcome of the same actor running its
program ALONE in its own forked child of the pristine parent; and each actor's
resolution scope is restored whenever none of its own iterators is suspended.
"""
import copy

from dsim import world as W
from dsim.canon import digest, jdump

PROPERTY = "C18"
QUICK_RUNS = 5000
THOROUGH_RUNS = 150000
QUICK_BUDGET = 90
RULE = ("scenario = 2-3 collision worlds (same base URI, same $ref strings, same remote URLs, same regexes, same "
        "format/type/keyword names; different definitions/documents/checkers) + per-actor resolver configuration and "
        "fault plan + per-actor program of 1-3 operations + a schedule (coop: list of actor ids / gc; preempt: 0-8 PCT "
        "change points over the traced line events / gc points); non-trivial = at least one switch happened while the "
        "de-scheduled actor had >=1 extra resolution scope pushed (reach probe) AND the actors' alone outcomes differ "
        "from each other; distinct = distinct scenario digests (world, programs, resolved schedule)")
STATE_MEASURE = ("hash of (per-actor scope-stack depth, per-actor program counter, number of suspended iterators) at "
                 "every scheduling decision (coop) / every switch (preempt)")
REQUIRED_PROBES = ("preempt_switches", "coop_steps")
# (gc_while_other_actor_suspended fires a few times per thousand scenarios: a short batch - heavy machine load, a slow
#  tree - can legitimately miss it, so it warns instead of failing the check)
EXPECTED_PROBES = ("switch_while_other_has_scope_pushed", "two_actors_suspended_in_ref", "gc_while_other_actor_suspended")
COMPONENTS = {
    "real": ["every module of jsonschema/ under /repo; real CPython threads and generators"],
    "stubs": ["thread scheduler (baton passing at sys.settrace line events; the choice of who runs is the simulator's)",
              "network transport per actor", "custom format/type/keyword behaviours", "garbage-collection schedule"],
}
ASSUMPTIONS = [
    "sampling, not proof; pre-emption granularity is the source line inside jsonschema/*.py, not the byte code",
    "alone-runs execute in separate forked children so that a shared module/class-level cache cannot pollute the oracle",
]

NODE_LIMIT = 6000
INTER_TIMEOUT = 20.0
SLOW_INTER_TIMEOUT = 75.0
ITER_OPS = ("exhaust", "take_close", "take_drop", "take_cycle")
WHOLE_OPS = ("is_valid", "validate", "tree", "best_match", "consumer_raises")
OTHER_TYPES = {"string": "integer", "integer": "string", "number": "boolean", "boolean": "number",
               "object": "array", "array": "object", "null": "string", "any": "null",
               "even": "nonempty", "nonempty": "even"}


def collide(rng, node, p=0.7):
    """Same structure, names, ids, $ref strings, regexes; different leaf constraints."""
    if isinstance(node, list):
        return [collide(rng, x, p) for x in node]
    if not isinstance(node, dict):
        return node
    out = {}
    for k, v in node.items():
        hit = rng.random() < p
        if k == "type" and hit and isinstance(v, str):
            out[k] = OTHER_TYPES.get(v, v)
        elif k == "type" and hit and isinstance(v, list):
            out[k] = [OTHER_TYPES.get(x, x) if isinstance(x, str) else collide(rng, x, p) for x in v]
        elif k in ("minimum", "maximum") and hit:
            out[k] = v + rng.choice([-1, 1])
        elif k in ("exclusiveMinimum", "exclusiveMaximum") and hit:
            out[k] = (not v) if isinstance(v, bool) else v + rng.choice([-1, 1])
        elif k in ("minLength", "maxLength", "minItems", "maxItems", "minProperties", "maxProperties") and hit:
            out[k] = (v + rng.choice([1, 2])) % 4
        elif k == "enum" and hit:
            out[k] = rng.sample(W.SCALARS, rng.randint(1, 3))
        elif k == "const" and hit:
            out[k] = rng.choice(W.SCALARS)
        elif k in ("multipleOf", "divisibleBy") and hit:
            out[k] = rng.choice([x for x in (2, 3, 0.5) if x != v])
        elif k == "required" and hit:
            out[k] = (not v) if isinstance(v, bool) else rng.sample(W.KEYS, rng.randint(1, 2))
        elif k == "uniqueItems" and hit:
            out[k] = not v
        elif k in ("additionalProperties", "additionalItems") and v is False and hit:
            out[k] = {}
        elif k == "x-marker" and hit:
            out[k] = rng.choice([t for t in W.PYTYPES if t != v])
        elif k == "format" and hit and rng.random() < 0.3:
            out[k] = rng.choice(["sim-evenlen", "sim-lower", "sim-noz"])
        elif k == "pattern":
            # mostly the same regular expression (a cache keyed by the regex string must not be confused),
            # sometimes a different one (two validators racing on one shared slot must not be confused either)
            out[k] = rng.choice([p2 for p2 in W.PATTERNS if p2 != v]) if rng.random() < 0.4 else v
        elif k == "patternProperties" and isinstance(v, dict) and rng.random() < 0.4:
            out[k] = dict((rng.choice(W.PP_PATTERNS), collide(rng, sub, p)) for sub in v.values())
        elif k in ("$ref", "id", "$id"):
            out[k] = v
        else:
            out[k] = collide(rng, v, p)
    return out


def gen_program(rng, world, sites, faulty, tier="quick"):
    ninst = len(world["instances"])
    prog = []
    refs = W.all_ref_strings(world["root"]) or ["#"]
    for _ in range(rng.choice([1, 1, 2, 2, 3] if tier == "quick" else [1, 2, 3, 4, 5])):
        kind = rng.choice(["exhaust", "exhaust", "take_close", "take_drop", "take_cycle", "is_valid", "validate",
                           "best_match", "consumer_raises", "tree", "resolve", "resolving"])
        if kind in ("resolve", "resolving"):
            prog.append({"op": kind, "ref": rng.choice(refs), "body_raises": rng.random() < 0.3})
            continue
        if rng.random() < 0.1:
            prog.append({"op": "check_schema"})       # Validator.check_schema(schema): a class-level operation
        if rng.random() < 0.12:
            # construction under the scheduler: the user builds a new validator object for the same schema in the
            # middle of the program (library constructors run while the other threads work).  Registering a class
            # at the same time is NOT generated: RefResolver() iterates the live registry, a registration on another
            # thread at that moment raises "dictionary changed size during iteration" - thread-unsafe registration
            # is a known hazard of the library that C18 (validators, not registrations) does not claim
            prog.append({"op": "rebuild"})
        op = {"op": kind, "inst": rng.randrange(ninst)}
        if kind in ("take_close", "take_drop", "take_cycle", "consumer_raises"):
            op["k"] = rng.choice([1, 1, 2, 2, 3, 4])
        prog.append(op)
    return prog


def generate(rng, tier="quick"):
    from dsim.sim import gen_cfg
    mode = rng.choice(["coop", "preempt"])
    n = rng.choice([2, 2, 2, 3])
    base = W.gen_world(rng, ndefs=rng.randint(2, 7), ref_rate=rng.choice([0.4, 0.55, 0.7]),
                       nested_id_rate=rng.choice([0.15, 0.3, 0.5]), unresolvable_rate=rng.choice([0.0, 0.0, 0.05]),
                       ninstances=rng.randint(2, 4), inst_depth=rng.choice([3, 3, 4]),
                       triggers=rng.random() < 0.6, formats=rng.random() < 0.55, metaschema_refs=rng.random() < 0.4,
                       custom_keywords=rng.random() < 0.5,
                       regex_boost=rng.random() < 0.7)
    worlds = [base]
    windex = [0]
    shared = []
    for i in range(1, n):
        if rng.random() < 0.15:
            shared.append(i)                    # same schema object / documents, separate resolver
            windex.append(0)
            continue
        w = copy.deepcopy(base)
        w["root"] = collide(rng, base["root"])
        w["docs"] = dict((u, collide(rng, d)) for u, d in base["docs"].items())
        if w["custom"]:
            w["custom"]["variant"] = i
        if w["formats"]:
            w["formats"]["variant"] = i
        windex.append(len(worlds))
        worlds.append(w)
    faulty = rng.random() < 0.5
    sites = []
    if base["formats"]:
        sites += ["format:" + x for x in base["formats"]["names"]]
    if base["custom"]:
        sites += ["type:" + x for x in base["custom"]["types"]] + ["kw:" + x for x in base["custom"]["keywords"]]
    actors = []
    for i in range(n):
        cfg = gen_cfg(rng, worlds[windex[i]], 0.3 if faulty else 0.0)
        cfg["default_resolver"] = rng.random() < 0.15      # Validator(schema) without resolver=
        if i in shared:
            cfg["base_mode"] = actors[0]["cfg"]["base_mode"]
            cfg["default_resolver"] = actors[0]["cfg"]["default_resolver"]
            cfg["share_format_checker"] = rng.random() < 0.5
            cfg["share_class"] = rng.random() < 0.6
        cfg["share_format_checker_with_class_donor"] = rng.random() < 0.5
        actors.append({"world": windex[i], "cfg": cfg, "program": gen_program(rng, base, sites, faulty, tier),
                       "share_root_with": 0 if i in shared else None,
                       "store_from": (rng.randrange(i) if (i > 0 and i not in shared and rng.random() < 0.2) else None),
                       # this validator object is an instance of an EARLIER actor's (possibly derived) class
                       "class_from": (rng.randrange(i) if (i > 0 and i not in shared and rng.random() < 0.3) else None),
                       # ... or is simply given the FormatChecker OBJECT an earlier actor uses (as everybody who passes
                       # jsonschema.draft7_format_checker does)
                       # (a shared-root actor takes neither: its alone-run is built without the root's owner, and which
                       #  checker / class it ends up with must not depend on that)
                       "fc_from": (rng.randrange(i) if (i > 0 and i not in shared and rng.random() < 0.35) else None)})
    if mode == "coop":
        bias = rng.choice(["uniform", "runs", "alternate"])
        length = rng.randint(10, 60)
        sched = []
        cur = rng.randrange(n)
        for _ in range(length):
            if bias == "alternate":
                cur = (cur + 1) % n
            elif bias == "uniform" or rng.random() < 0.25:
                cur = rng.randrange(n)
            sched.append(-1 if rng.random() < 0.05 else cur)
        if any(o["op"] == "take_cycle" for a in actors for o in a["program"]):
            # somebody drops an iterator into a reference cycle: let the collector run while the others are busy
            for _ in range(rng.randint(1, 3)):
                sched.insert(rng.randrange(len(sched) // 3, len(sched) + 1), -1)
        schedule = {"mode": "coop", "order": sched}
    else:
        d = rng.choice([0, 1, 1, 2, 2, 3, 4, 6, 8, 12])
        quantum = rng.choice([1, 2, 3, 5, 8, 13, 21, 50]) if rng.random() < 0.4 else 0
        pts = []
        for _ in range(d):
            to = "gc" if rng.random() < 0.12 else rng.randrange(n)
            pts.append([round(rng.random(), 6), to])
        if any(o["op"] == "take_cycle" for a in actors for o in a["program"]):
            for _ in range(rng.randint(1, 2)):
                pts.append([round(rng.random(), 6), "gc"])
        pts.sort(key=lambda p: p[0])
        # change points addressed by SOURCE LINE (uniform over the distinct lines a thread executes, then over
        # the occurrences of that line): rarely executed lines - e.g. the two stores of a shared cache slot -
        # are then as likely to be pre-empted as the lines of hot loops
        spts = []
        for _ in range(rng.choice([0, 1, 2, 4, 6, 8])):
            th = rng.randrange(n)
            spts.append([th, round(rng.random(), 6), round(rng.random(), 6),
                         rng.choice([t for t in range(n) if t != th]), rng.random() < 0.5])
        upts = []
        if rng.random() < 0.4:
            # pre-emption INSIDE the user's own callables (a format / type / keyword function running on behalf of one
            # validator is interrupted and another validator runs): the k-th line of user code a thread executes
            for _ in range(rng.randint(1, 3)):
                th = rng.randrange(n)
                upts.append([th, round(rng.random(), 6), rng.choice([t for t in range(n) if t != th])])
        schedule = {"mode": "preempt", "fractions": pts, "first": rng.randrange(n), "quantum": quantum,
                    "site_fractions": spts, "user_points": upts}
    more = []
    if mode == "preempt":
        # further schedules for the SAME worlds and programs (the alone-runs are paid for once): single
        # pre-emptions at a source line chosen uniformly over the distinct lines a thread executes
        for _ in range(rng.choice([0, 2, 4, 8])):
            th = rng.randrange(n)
            sp = [[th, round(rng.random(), 6), round(rng.random(), 6), rng.choice([t for t in range(n) if t != th]),
                   rng.random() < 0.5]]
            if rng.random() < 0.3:
                th2 = rng.randrange(n)
                sp.append([th2, round(rng.random(), 6), round(rng.random(), 6),
                           rng.choice([t for t in range(n) if t != th2]), rng.random() < 0.5])
            up = []
            if rng.random() < 0.5:
                up = [[th, round(rng.random(), 6), rng.choice([t for t in range(n) if t != th])]]
            more.append({"mode": "preempt", "fractions": [], "first": th, "quantum": 0, "site_fractions": sp,
                         "user_points": up})
    return {"property": PROPERTY, "worlds": worlds, "actors": actors, "schedule": schedule,
            "more_schedules": more, "requests": rng.random() < 0.3, "share_instances": rng.random() < 0.2,
            "warnings_are_errors": rng.random() < 0.1,
            # nobody shares a root or hands over a store (a class or a FormatChecker of an earlier actor exists before any
            # resolver does): each thread may then build its own resolver and validator itself
            "late_construct": bool(not shared and all(a["store_from"] is None for a in actors) and rng.random() < 0.4)}


# --------------------------------------------------------------------------- execution (children)
from dsim.sim import GC_GUARD, guarded_collect  # noqa: E402  (collections during which the scheduler does not switch)


class Stepper(object):
    """Runs one actor's program in micro-steps: one next(), one finishing action, or one whole op."""

    def __init__(self, actor, program, instances, share_instances=False):
        self.actor = actor
        self.program = program
        self.instances = instances
        self.share_instances = share_instances
        self.pc = 0
        self.task = None
        self.phase = None
        self.outcomes = []
        self.violations = []
        self.inst0 = None

    def finished(self):
        return self.pc >= len(self.program)

    def suspended(self):
        return self.task is not None and self.task.suspended()

    def _complete(self, out):
        a = self.actor
        for v in a.check_invariants(self.pc, ended_in_exception=(out.get("k") == "raised" or bool(out.get("exc")))):
            v["op"] = self.program[self.pc]["op"]
            self.violations.append(v)
        self.outcomes.append(out)
        self.task = None
        self.phase = None
        self.pc += 1
        if getattr(a, "nodes", 0) > NODE_LIMIT and self.pc < len(self.program):
            # an exponential error tree (thousands of nested oneOf/anyOf errors): the rest of this actor's
            # program is dropped - the same way alone and interleaved, the count is per actor and deterministic
            a.probe("program_cut_short_heavy_error_trees")
            self.program = self.program[:self.pc]

    def step(self):
        from dsim import canon
        a = self.actor
        canon.set_nodes(getattr(a, "nodes", 0))
        try:
            return self._step()
        finally:
            a.nodes = canon.nodes()

    def _step(self):
        """One micro-step.  Returns a label for the schedule trace."""
        import gc
        from dsim.sim import IterTask, do_op
        from dsim.canon import fast
        a = self.actor
        a.activate()
        if not a.constructed:
            # late construction: this actor's resolver and validator are built by its own thread, as the first
            # micro-step of its program - under the scheduler like everything else
            a.finish_construction()
            a.probe("constructed_under_scheduler")
            return "construct"
        op = self.program[self.pc]
        kind = op["op"]
        if self.task is None:
            if a.pending_cycle:
                guarded_collect()
                a.pending_cycle = False
                a.probe("forced_gc_before_next_op")
            if kind not in ITER_OPS:
                out = do_op(a, op, self.instances)
                out.pop("_instance_mutated", None)
                self._complete(out)
                return "whole:" + kind
            a.collab.begin(op.get("collab"))
            # (optionally) the very same instance OBJECT is validated by several validators at once
            from dsim.sim import materialise
            inst = self.instances[op["inst"]] if (self.share_instances and not a.world.get("decimal_floats")) \
                else materialise(self.instances[op["inst"]], a.world)
            self.task = IterTask(a, inst)
            self.phase = "iter"
        t = self.task
        want = op.get("k", 10 ** 9)
        if self.phase == "iter":
            t.step()                       # exactly one next()
            if t.done:
                self._complete(t.outcome())
                return "done"
            if kind == "exhaust" or len(t.errs) < want:
                return "next"
            self.phase = "finish"          # suspended at its k-th error; abandonment is a separate step
            return "next-last"
        # finishing action on a suspended iterator
        if t.suspended() and a.depth() >= 2:
            a.probe("abandon_with_scopes_pushed")
        if kind == "take_close":
            t.close()
        elif kind == "take_drop":
            t.drop()
        else:
            if t.suspended():
                a.pending_cycle = True
            t.drop_cyclic()
        out = t.outcome()
        self._complete(out)
        return "abandon:" + kind

    def run_all(self):
        while not self.finished():
            self.step()


def build_actors(scn, router):
    from dsim.sim import Actor
    actors = []
    for i, spec in enumerate(scn["actors"]):
        world = scn["worlds"][spec["world"]]
        j = spec.get("share_root_with")
        src = actors[j] if (j is not None and j < i) else None
        sj = spec.get("store_from")
        donor = actors[sj] if (sj is not None and sj < i and src is None) else None
        cj = spec.get("class_from")
        fj = spec.get("fc_from")
        if src is not None:
            cj = fj = None          # a shared-root actor takes class and checker from nobody (see exec_alone)
        actors.append(Actor(world, spec["cfg"], router, shared_from=src, store_from=donor,
                            class_from=actors[cj] if (cj is not None and cj < i) else None,
                            fc_from=actors[fj] if (fj is not None and fj < i) else None,
                            defer=bool(scn.get("late_construct"))))
    return actors


class Preempt(object):
    """Baton-passing scheduler over real threads; pre-emption at traced line events.

    Exactly one thread holds the baton (`holder`); everybody else waits on one condition variable
    until the baton is theirs.  Every traced line first checks "do I hold the baton?", so a thread that
    was blocked inside the library on a real lock (and was therefore skipped, see the watchdog) rejoins
    the discipline at its next traced line.  The watchdog (main thread) only acts when no traced line
    has been executed for WATCHDOG seconds: the holder is then blocked on something a parked thread owns;
    the baton moves to the lowest parked thread.  With lock-free code the watchdog never fires and the
    schedule is a pure function of the scenario.  If nobody can make progress for DEADLOCK seconds the
    run is abandoned and reported as a hang.
    """
    WATCHDOG = 1.0
    DEADLOCK = 6.0

    def __init__(self, n, points, pkg, first=0, quantum=0):
        import threading
        self.n = n
        self.cv = threading.Condition()
        self.holder = None
        self.done = [False] * n
        self.idx = {}
        self.step = 0
        self.points = list(points)
        self.pi = 0
        self.pkg = pkg
        import dsim.behaviours as _b
        self.user_code = _b.__file__          # where the simulated user's formats / types / keywords live
        self.trace = []
        self.first = first
        self.on_switch = None
        self.on_gc = None
        self.threading = threading
        self.quantum = quantum      # >0: round-robin hand-over every `quantum` traced lines (time slicing)
        self.switches = 0
        self.hist = None            # alone-runs: {(filename, lineno): count} of traced lines
        self.site_watch = {}        # (thread, filename, lineno) -> [[occurrence, to], ...]
        self.site_seen = {}
        self.user_watch = {}        # thread -> [[n-th line of USER code this thread executes, to], ...]
        self.user_seen = {}
        self.blocked_events = 0
        self.blocked = set()        # threads the watchdog found blocked in a real lock; no baton for them until they move
        self.deadlock = False

    # baton ---------------------------------------------------------------
    def give(self, to):
        with self.cv:
            self.holder = to
            self.cv.notify_all()

    def wait_baton(self, me):
        with self.cv:
            while self.holder != me:
                self.cv.wait()

    def handoff(self, me, to):
        self.switches += 1
        self.give(to)
        self.wait_baton(me)

    # tracing -------------------------------------------------------------
    def tracer(self, frame, event, arg):
        fn = frame.f_code.co_filename
        if fn.startswith(self.pkg) and "/tests/" not in fn:
            return self.local
        if fn == self.user_code:
            return self.local       # the user's own callables (formats, types, keywords) are pre-emptible too
        return None

    def site(self, frame):
        fn = frame.f_code.co_filename
        if fn.startswith(self.pkg):
            return "%s:%d" % (fn[len(self.pkg):], frame.f_lineno)
        return "user-code:%d" % frame.f_lineno

    def local(self, frame, event, arg):
        if event == "line":
            if GC_GUARD["depth"]:
                return self.local           # finalisers run by a harness-initiated collection are not pre-empted
            me = self.idx[self.threading.get_ident()]
            if self.holder != me:
                self.blocked.discard(me)    # I was blocked in a real lock while the baton moved on; I move again
                self.wait_baton(me)
            self.step += 1
            inpkg = frame.f_code.co_filename.startswith(self.pkg)
            if self.hist is not None and inpkg:
                key = (frame.f_code.co_filename, frame.f_lineno)
                self.hist[key] = self.hist.get(key, 0) + 1
            if not inpkg:
                n = self.user_seen.get(me, 0) + 1
                self.user_seen[me] = n
                for occ, to in self.user_watch.get(me, ()):
                    if occ == n and to != me and not self.done[to] and to not in self.blocked:
                        if self.on_switch:
                            self.on_switch(me, to)
                        self.trace.append([self.step, me, to, self.site(frame)])
                        self.handoff(me, to)
                        break
            if self.site_watch and inpkg:
                key = (me, frame.f_code.co_filename, frame.f_lineno)
                w = self.site_watch.get(key)
                if w is not None:
                    n = self.site_seen.get(key, 0) + 1
                    self.site_seen[key] = n
                    for occ, to in w:
                        if occ == n and to != me and not self.done[to] and to not in self.blocked:
                            if self.on_switch:
                                self.on_switch(me, to)
                            self.trace.append([self.step, me, to, "%s:%d" % (key[1][len(self.pkg):], key[2])])
                            self.handoff(me, to)
                            break
            if self.pi < len(self.points) and self.step >= self.points[self.pi][0]:
                _, to = self.points[self.pi]
                self.pi += 1
                site = self.site(frame)
                if to == "gc":
                    if self.on_gc:
                        self.on_gc(me)
                    guarded_collect()
                    self.trace.append([self.step, me, "gc", site])
                elif to != me and not self.done[to] and to not in self.blocked:
                    if self.on_switch:
                        self.on_switch(me, to)
                    self.trace.append([self.step, me, to, site])
                    self.handoff(me, to)
            elif self.quantum and self.step % self.quantum == 0:
                to = None
                for j in range(1, self.n):
                    c = (me + j) % self.n
                    if not self.done[c] and c not in self.blocked:
                        to = c
                        break
                if to is not None:
                    if self.on_switch:
                        self.on_switch(me, to)
                    if len(self.trace) < 64:
                        self.trace.append([self.step, me, to, self.site(frame)])
                    self.handoff(me, to)
        return self.local

    # thread bodies -------------------------------------------------------
    def body(self, i, fn):
        import sys
        self.idx[self.threading.get_ident()] = i
        self.wait_baton(i)
        sys.settrace(self.tracer)
        try:
            fn()
        finally:
            sys.settrace(None)
            if self.holder != i:
                self.wait_baton(i)
            self.done[i] = True
            self.blocked.discard(i)
            live = [j for j in range(self.n) if not self.done[j]]
            free = [j for j in live if j not in self.blocked]
            # a thread blocked on a lock that I held can go on now that I am done
            self.give((free or live or ["main"])[0])

    def run(self, fns):
        threads = [self.threading.Thread(target=self.body, args=(i, fn), name="actor-%d" % i, daemon=True)
                   for i, fn in enumerate(fns)]
        for t in threads:
            t.start()
        self.give(self.first if self.first < self.n else 0)
        last = -1
        stalled = 0.0
        skipped = set()
        with self.cv:
            while self.holder != "main":
                # lock-free code never trips the 1 s watchdog; once real blocking has been seen in this run the
                # period drops, so that lock-using (but correct) code is simulated at a bearable cost
                period = self.WATCHDOG if not self.blocked_events else 0.05
                if self.cv.wait(timeout=period):
                    continue
                if self.holder == "main":
                    break
                if self.step != last:
                    last = self.step
                    stalled = 0.0
                    skipped.clear()
                    continue
                # no traced line for a whole period: the holder is blocked on something a parked thread owns
                stalled += period
                skipped.add(self.holder)
                cand = [j for j in range(self.n) if not self.done[j] and j not in skipped]
                if cand:
                    self.blocked_events += 1
                    self.blocked.add(self.holder)
                    self.trace.append([self.step, self.holder, cand[0], "blocked-on-lock"])
                    self.holder = cand[0]
                    self.cv.notify_all()
                elif stalled >= self.DEADLOCK:
                    self.deadlock = True
                    break
        if not self.deadlock:
            for t in threads:
                t.join()


def pkg_prefix():
    import os
    import jsonschema
    return os.path.dirname(os.path.abspath(jsonschema.__file__)) + os.sep


def exec_alone(arg):
    """One actor alone, sequentially, in its own child (same tracer on, no change points)."""
    scn, i = arg["scn"], arg["actor"]
    from dsim.transport import Router
    router = Router().install(scn.get("requests", False))
    if scn.get("warnings_are_errors"):
        import warnings
        warnings.simplefilter("error")      # python -W error: a warning issued by the library is an exception there
    one = copy.deepcopy(scn)
    spec = one["actors"][i]
    if spec.get("share_root_with") is not None:
        spec["class_from"] = spec["fc_from"] = None     # (as in the interleaved run, see build_actors)
    spec["share_root_with"] = None
    sj = spec.get("store_from")
    if sj is None:
        sj = spec.get("class_from")
    if sj is None:
        sj = spec.get("fc_from")
    if sj is not None and sj < i:
        # the donor of the store object is constructed (never operated), exactly as in the interleaved run;
        # a donor may itself have taken its store from an earlier actor (or share a root with one), so the
        # whole prefix of actors is constructed with its links intact and only actor i is operated
        one["actors"] = one["actors"][:i + 1]
    else:
        spec["store_from"] = None
        one["actors"] = [spec]
    actors = build_actors(one, router)
    st = Stepper(actors[-1], spec["program"], scn["worlds"][0]["instances"], scn.get("share_instances", False))
    lines = 0
    user_lines = 0
    hist = {}
    if scn["schedule"]["mode"] == "preempt":
        pkg = pkg_prefix()
        p = Preempt(1, [], pkg)
        p.hist = {}
        p.run([st.run_all])
        lines = p.step
        user_lines = p.user_seen.get(0, 0)
        hist = dict(("%s:%d" % (fn[len(pkg):], ln), c) for (fn, ln), c in p.hist.items())
    else:
        st.run_all()
    return {"outcomes": st.outcomes, "lines": lines, "violations": st.violations, "hist": hist,
            "user_lines": user_lines}


def exec_inter(scn):
    import gc
    from dsim.transport import Router
    router = Router().install(scn.get("requests", False))
    if scn.get("warnings_are_errors"):
        import warnings
        warnings.simplefilter("error")      # python -W error: a warning issued by the library is an exception there
    actors = build_actors(scn, router)
    instances = scn["worlds"][0]["instances"]
    steppers = [Stepper(a, scn["actors"][i]["program"], instances, scn.get("share_instances", False))
                for i, a in enumerate(actors)]
    stats = {}
    states = []
    trace = []

    def probe(name, n=1):
        stats[name] = stats.get(name, 0) + n

    def observe(running):
        depths = [a.depth() for a in actors]
        others = [d for j, d in enumerate(depths) if j != running]
        if any(d >= 2 for d in others):
            probe("switch_while_other_has_scope_pushed")
        if sum(1 for j, s in enumerate(steppers) if s.suspended() and depths[j] >= 2) >= 2:
            probe("two_actors_suspended_in_ref")
        states.append(digest([depths, [s.pc for s in steppers], sum(1 for s in steppers if s.suspended())]))

    sched = scn["schedule"]
    if sched["mode"] == "coop":
        order = list(sched["order"])
        k = 0
        rr = 0
        while not all(s.finished() for s in steppers):
            if k < len(order):
                who = order[k]
                k += 1
            else:
                who = rr % len(steppers)
                rr += 1
            if who == -1:
                if any(s.suspended() for s in steppers) and any(a.pending_cycle for a in actors):
                    probe("gc_while_other_actor_suspended")
                guarded_collect()
                for a in actors:
                    a.pending_cycle = False
                trace.append("gc")
                continue
            if who >= len(steppers) or steppers[who].finished():
                continue
            observe(who)
            label = steppers[who].step()
            probe("coop_steps")
            trace.append([who, label])
        sched_digest = digest(trace)
        steps = len(trace)
    else:
        pts = sched.get("resolved") or []
        pkg = pkg_prefix()
        p = Preempt(len(steppers), pts, pkg, first=sched.get("first", 0), quantum=sched.get("quantum", 0))
        for th, site, occ, to in sched.get("resolved_sites") or []:
            fn, ln = site.rsplit(":", 1)
            p.site_watch.setdefault((th, pkg + fn, int(ln)), []).append([occ, to])
        for th, occ, to in sched.get("resolved_user") or []:
            if th < len(steppers) and to < len(steppers):
                p.user_watch.setdefault(th, []).append([occ, to])

        def on_switch(me, to):
            probe("preempt_switches")
            d = actors[me].depth()
            if d >= 2:
                probe("switch_while_other_has_scope_pushed")
            if sum(1 for a in actors if a.depth() >= 2) >= 2:
                probe("two_actors_suspended_in_ref")
            states.append(digest([[a.depth() for a in actors], [s.pc for s in steppers],
                                  sum(1 for s in steppers if s.suspended())]))

        def on_gc(me):
            if any(a.pending_cycle for j, a in enumerate(actors) if j != me):
                probe("gc_while_other_actor_suspended")
            for a in actors:
                a.pending_cycle = False
        p.on_switch = on_switch
        p.on_gc = on_gc
        p.run([s.run_all for s in steppers])
        if p.blocked_events:
            stats["baton_moved_because_holder_blocked_on_lock"] = p.blocked_events
        if p.deadlock:
            stats["deadlock"] = 1
        trace = p.trace
        sched_digest = digest([[t[1], t[2], t[3]] for t in trace] + [sched.get("quantum", 0), p.switches])
        steps = p.step
        stats["traced_lines"] = p.step
    for a in actors:
        for name, v in a.probes.items():
            stats[name] = stats.get(name, 0) + v
        for name, v in a.transport.fired.items():
            stats["fault:" + name] = stats.get("fault:" + name, 0) + v
        stats["fault:collab_raise"] = stats.get("fault:collab_raise", 0) + a.collab.fired
    violations = []
    for i, s in enumerate(steppers):
        for v in s.violations:
            v["actor"] = i
            violations.append(v)
    return {"outcomes": [s.outcomes for s in steppers], "violations": violations, "stats": stats,
            "states": states, "sched": sched_digest, "steps": steps, "trace": trace[:200]}


def _stack_exhausted(o):
    e = o.get("exc") or {}
    return e.get("cls") == "RecursionError" or "maximum recursion depth" in (e.get("msg") or "")


def same_outcome(a, b):
    if _stack_exhausted(a) or _stack_exhausted(b):
        # an endlessly recursive schema (a reference cycle that consumes no instance) dies of stack exhaustion;
        # WHERE the stack runs out - and so the exact wording, or which except clause sees it first - depends on
        # a few frames of context that differ between a thread run alone and one of several: "died of stack
        # exhaustion" is the whole outcome, on both sides
        return _stack_exhausted(a) and _stack_exhausted(b)
    if a.get("k") == "errors" and b.get("k") == "errors" and a.get("complete") and b.get("complete"):
        return sorted(jdump(e) for e in a["errs"]) == sorted(jdump(e) for e in b["errs"])
    return jdump(a) == jdump(b)


def resolve_schedule(sched, alone, n):
    if sched["mode"] == "preempt" and "resolved_user" not in sched:
        ru = []
        for th, f, to in sched.get("user_points") or []:
            if th < n and alone[th].get("user_lines", 0) > 0:
                ru.append([th, 1 + int(f * alone[th]["user_lines"]), to])
        sched["resolved_user"] = ru
    if sched["mode"] == "preempt" and "resolved" not in sched:
        horizon = max(1, sum(a["lines"] for a in alone))
        sched["horizon"] = horizon
        sched["resolved"] = [[max(1, int(f * horizon)), to] for f, to in sched["fractions"]]
        sched["resolved"].sort(key=lambda p: p[0])
    if sched["mode"] == "preempt" and "resolved_sites" not in sched:
        rs = []
        for ent in sched.get("site_fractions", ()):
            th, fs, fo, to = ent[:4]
            rare = len(ent) > 4 and ent[4]
            if th >= n:
                continue
            hist = alone[th].get("hist", {})
            sites = sorted(hist)
            if rare:
                # lines this thread executes only a few times: where one-off initialisation and shared slots live
                sites = [x for x in sites if hist[x] <= 4] or sites
            if not sites:
                continue
            site = sites[min(len(sites) - 1, int(fs * len(sites)))]
            occ = 1 + int(fo * hist[site])
            rs.append([th, site, min(occ, hist[site]), to])
        sched["resolved_sites"] = rs


def run_schedule(scn, alone, fork_call):
    """One interleaved child for scn["schedule"]; returns (violations, inter-result-or-None)."""
    from dsim.runner import HarnessError
    n = len(scn["actors"])
    sched = scn["schedule"]
    try:
        inter = fork_call(exec_inter, scn, timeout=INTER_TIMEOUT)
    except HarnessError as e:
        if "timed out" not in str(e):
            raise
        try:
            # once more, with much more time: a tree that uses real locks makes the scheduler wait for its watchdog
            # at every contended acquisition, and on a loaded machine that alone can exceed the first deadline - a
            # run that is merely slow finishes now and is used; a hang is a hang both times
            inter = fork_call(exec_inter, scn, timeout=SLOW_INTER_TIMEOUT)
            inter["stats"]["interleaved_run_needed_the_long_deadline"] = 1
        except HarnessError as e2:
            if "timed out" not in str(e2):
                raise
            # every actor finished alone (in its own child); together they never finish: interference by blocking
            return [{"oracle": "interleaved-run-hung", "where": 0,
                     "detail": {"timeout_s": [INTER_TIMEOUT, SLOW_INTER_TIMEOUT], "mode": sched["mode"],
                                "alone_ops": [len(a["outcomes"]) for a in alone]}}], None
    violations = list(inter["violations"])
    for i in range(n):
        exp, got = alone[i]["outcomes"], inter["outcomes"][i]
        if len(exp) != len(got):
            violations.append({"oracle": "interleaved-run-hung" if inter["stats"].get("deadlock") else
                               "program-did-not-complete", "where": i,
                               "detail": {"alone": len(exp), "interleaved": len(got)}})
            continue
        for j in range(len(exp)):
            if not same_outcome(exp[j], got[j]):
                violations.append({"oracle": "differs-from-alone", "where": j, "actor": i,
                                   "op": scn["actors"][i]["program"][j]["op"],
                                   "detail": {"alone": exp[j], "interleaved": got[j],
                                              "schedule_trace": inter.get("trace", [])[:40]}})
                break
    # scope invariants that already fail ALONE are a C07 matter, not interference: do not report them here
    alone_scope = set()
    for i in range(n):
        for v in alone[i]["violations"]:
            alone_scope.add((i, v["oracle"], v["where"]))
    violations = [v for v in violations
                  if not (v["oracle"] not in ("differs-from-alone", "program-did-not-complete", "interleaved-run-hung")
                          and (v.get("actor"), v["oracle"], v["where"]) in alone_scope)]
    return violations, inter


def run(scn, fork_call):
    n = len(scn["actors"])
    alone = [fork_call(exec_alone, {"scn": scn, "actor": i}) for i in range(n)]
    schedules = [scn["schedule"]] + list(scn.get("more_schedules") or [])
    stats = {}
    states = []
    steps = 0
    digests = []
    scheds = []
    violations = []
    for k, sched in enumerate(schedules):
        resolve_schedule(sched, alone, n)
        one = dict(scn, schedule=sched, more_schedules=[])
        v, inter = run_schedule(one, alone, fork_call)
        stats["schedules_executed"] = stats.get("schedules_executed", 0) + 1
        if inter is not None:
            for name, c in inter["stats"].items():
                stats[name] = stats.get(name, 0) + c
            states.extend(inter["states"])
            steps += inter["steps"]
            digests.append([inter["outcomes"], inter["sched"]])
            scheds.append(inter["sched"])
        else:
            stats["hung_runs"] = stats.get("hung_runs", 0) + 1
            digests.append(["hung", sched["mode"]])
        if v:
            violations = v
            # the violating schedule becomes THE schedule of the scenario (replay file = one schedule)
            scn["schedule"] = sched
            scn["more_schedules"] = []
            break
    differ = len(set(jdump(a["outcomes"]) for a in alone)) > 1
    nontrivial = bool(stats.get("switch_while_other_has_scope_pushed", 0) > 0 and differ)
    return {"violations": violations, "nontrivial": nontrivial, "stats": stats, "steps": steps,
            "log_digest": digest(digests), "states": states, "sched": digest(scheds) if scheds else None}


def violation_class(v):
    return "C18/" + v["oracle"]


def shrink(scn):
    from dsim.minimise import shrink_json_at
    sched = scn["schedule"]
    # schedule first: fewer pre-emptions / fewer explicit decisions
    if sched["mode"] == "preempt":
        if sched.get("quantum"):
            c = copy.deepcopy(scn)
            c["schedule"]["quantum"] = 0
            yield c
            for q in (50, 21, 8):
                if q > sched["quantum"]:
                    c = copy.deepcopy(scn)
                    c["schedule"]["quantum"] = q
                    yield c
        for i in range(len(sched.get("resolved_sites") or []) - 1, -1, -1):
            c = copy.deepcopy(scn)
            del c["schedule"]["resolved_sites"][i]
            yield c
        pts = sched.get("resolved") or []
        for i in range(len(pts) - 1, -1, -1):
            c = copy.deepcopy(scn)
            del c["schedule"]["resolved"][i]
            yield c
    else:
        order = sched["order"]
        for cut in (len(order) // 2, len(order) - 1):
            if 0 <= cut < len(order):
                c = copy.deepcopy(scn)
                c["schedule"]["order"] = order[:cut]
                yield c
        for i in range(len(order) - 1, -1, -1):
            c = copy.deepcopy(scn)
            del c["schedule"]["order"][i]
            yield c
    # fewer actors (keep >= 2), fewer ops
    if len(scn["actors"]) > 2:
        for i in range(len(scn["actors"]) - 1, -1, -1):
            if any(a.get("share_root_with") == i or a.get("store_from") == i or a.get("class_from") == i
                   or a.get("fc_from") == i for a in scn["actors"]):
                continue
            c = copy.deepcopy(scn)
            del c["actors"][i]
            for a in c["actors"]:
                if a.get("share_root_with") is not None and a["share_root_with"] > i:
                    a["share_root_with"] -= 1
                if a.get("store_from") is not None and a["store_from"] > i:
                    a["store_from"] -= 1
                if a.get("class_from") is not None and a["class_from"] > i:
                    a["class_from"] -= 1
                if a.get("fc_from") is not None and a["fc_from"] > i:
                    a["fc_from"] -= 1
            if c["schedule"]["mode"] == "coop":
                c["schedule"]["order"] = [x if x < i else x - 1 for x in c["schedule"]["order"] if x != i]
            else:
                c["schedule"]["resolved"] = [[s, (t if (t == "gc" or t < i) else t - 1)]
                                             for s, t in c["schedule"].get("resolved", []) if t != i]
                c["schedule"]["resolved_sites"] = [[(th if th < i else th - 1), st, oc, (t if t < i else t - 1)]
                                                   for th, st, oc, t in c["schedule"].get("resolved_sites", [])
                                                   if th != i and t != i]
                if c["schedule"].get("first", 0) >= len(c["actors"]):
                    c["schedule"]["first"] = 0
            yield c
    for i, a in enumerate(scn["actors"]):
        for j in range(len(a["program"]) - 1, -1, -1):
            if len(a["program"]) > 1:
                c = copy.deepcopy(scn)
                del c["actors"][i]["program"][j]
                yield c
        for j, op in enumerate(a["program"]):
            if op.get("k", 0) > 1:
                c = copy.deepcopy(scn)
                c["actors"][i]["program"][j]["k"] -= 1
                yield c
        if a["cfg"].get("faults"):
            for u in list(a["cfg"]["faults"]):
                c = copy.deepcopy(scn)
                del c["actors"][i]["cfg"]["faults"][u]
                yield c
    for wi in range(len(scn["worlds"])):
        for path in (["worlds", wi, "root"], ["worlds", wi, "docs"]):
            for c in shrink_json_at(scn, path):
                yield c
    for c in shrink_json_at(scn, ["worlds", 0, "instances"], keep_list_length=True):
        yield c


def sample_view(scn):
    return {"draft": scn["worlds"][0]["draft"], "roots": [w["root"] for w in scn["worlds"]],
            "docs": [sorted(w["docs"]) for w in scn["worlds"]],
            "programs": [a["program"] for a in scn["actors"]], "schedule": scn["schedule"],
            "instances": scn["worlds"][0]["instances"]}


def known_finding(v, scn):
    return None
