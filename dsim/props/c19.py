"""C19 - CLI: exit status, diagnostics and per-instance processing follow the library.

jsonschema.cli.run() is executed for real against a simulated environment: a
dict-backed file system injected as the module global `jsonschema.cli.open`
(text mode, UTF-8), a simulated stdin, recording stdout/stderr and - for
--base-uri worlds - the simulated urlopen.  Storage faults are applied to
well-formed files (missing, torn at a random byte, one flipped bit, empty,
undecodable bytes, short reads, EISDIR/EACCES/EIO); a ~40-line reference model
re-classifies every file from its *actual* bytes and predicts exit status,
error records, diagnostics and stdout.
"""
import base64
import copy
import json

from dsim import world as W
from dsim.canon import digest

PROPERTY = "C19"
QUICK_RUNS = 12000
THOROUGH_RUNS = 500000
RULE = ("scenario = schema file state {valid, invalid schema, missing, torn, bit-flipped, empty, undecodable} x 0-6 "
        "instance files (or stdin) each {valid, invalid with k errors, missing, torn, bit-flipped, empty, undecodable, "
        "short reads, EISDIR/EACCES/EIO} x output {plain, pretty} x delimited --error-format or default x --validator "
        "{none, short, dotted} x --base-uri; non-trivial = >=2 instances with >=1 faulted or invalid instance followed "
        "by >=1 later instance, and the schema loaded and passed check_schema; distinct = distinct scenario digests")
STATE_MEASURE = "hash of (schema state, tuple of per-instance model classifications, output mode, error-format kind)"
REQUIRED_PROBES = ("instance_after_faulted_instance_processed", "short_reads_served", "fault:fs_torn",
                   "fault:fs_trailing_garbage",
                   "fault:fs_bitflip", "fault:fs_enoent", "fault:fs_empty", "records_compared")
COMPONENTS = {
    "real": ["jsonschema/cli.py (parse_args, run, _Outputter, formatters), validators, exceptions under /repo"],
    "stubs": ["file system (jsonschema.cli.open)", "stdin/stdout/stderr objects", "urlopen for --base-uri worlds"],
}
ASSUMPTIONS = [
    "sampling, not proof",
    "the json module decides what parses; the model trusts json.loads and UTF-8 decoding of the standard library",
    "wording of diagnostics, specific non-zero exit codes and write-call granularity are not asserted",
]

RS, US, GS = "\x1e", "\x1f", "\x1d"
DELIM_FORMATS = [
    RS + "{file_name}" + GS + "{error.message}" + GS + "{error.validator}" + US,
    RS + "{file_name}" + GS + "{error.message}" + US + "\n",
    RS + "{error.validator}" + GS + "{file_name}" + GS + "{error.message}" + GS + "{error.instance}" + US,
    # formats are used VERBATIM: backslashes, non-ASCII text, conversions, width specs, doubled braces, a
    # trailing backslash - none of it is an escape sequence or a template of anything but str.format
    RS + "E" + US,                       # no placeholder at all: one constant record per error
    RS + "\u2717 C:\\temp\\new {file_name}" + GS + "{error.message}" + US,
    RS + "{file_name}" + GS + "{error.message!r}\\n\\t" + US + "\\",
    RS + "{error.validator!s:>14}" + GS + "{file_name}" + GS + "{{literal}} %s \\u2717 \\x41" + GS + "{error.message}" + US,
]
# a format that INDEXES into an attribute of the error: fine for every error of a schema whose subschemas all have
# a title; where it does not apply to some expected error (str.format raises) the run is outside the quantifier
TITLE_FORMAT = RS + "{file_name}" + GS + "{error.schema[title]}" + GS + "{error.message}" + US
DELIM_FORMATS.append(TITLE_FORMAT)
CLAIMED_STATES = ("ok", "missing", "unparsable", "undecodable")


def b64(b):
    return base64.b64encode(b).decode("ascii")


def unb64(s):
    return base64.b64decode(s.encode("ascii"))


def apply_fault(rng, good, kind):
    """bytes after the storage fault (None = file absent)."""
    if kind in (None, "fs_short_reads", "fs_eisdir", "fs_eacces", "fs_eio_on_read"):
        return good
    if kind == "fs_enoent":
        return None
    if kind == "fs_empty":
        return b""
    if kind == "fs_torn":
        return good[:rng.randrange(0, max(1, len(good)))]
    if kind == "fs_bitflip":
        if not good:
            return good
        i = rng.randrange(len(good))
        return good[:i] + bytes([good[i] ^ (1 << rng.randrange(8))]) + good[i + 1:]
    if kind == "fs_bad_utf8":
        i = rng.randrange(0, len(good) + 1)
        return good[:i] + rng.choice([b"\xff", b"\xc3", b"\xe2\x82", b"\x80"]) + good[i:]
    if kind == "fs_bom":
        return b"\xef\xbb\xbf" + good
    if kind == "fs_trailing_garbage":
        # a complete JSON document followed by something else: not a JSON document
        return good + rng.choice([b"\n{}", b" x", b"\n[1, 2]\n", b",", b"\x00", b"}\n"])
    raise KeyError(kind)


def break_schema(rng, schema):
    s = copy.deepcopy(schema) if isinstance(schema, dict) else {}
    s.update(rng.choice([{"type": 12}, {"minLength": -1}, {"properties": []}, {"enum": 5},
                         {"items": 7}, {"pattern": 3}, {"maxItems": "x"}]))
    return s


def generate(rng, tier="quick"):
    world = W.gen_world(rng, ndocs=0, root_url="", nested_id_rate=0.0, unresolvable_rate=0.0,
                        custom_types=False, custom_keywords=False, formats=False, metaschema_refs=False,
                        ninstances=6, ndefs=rng.randint(1, 4))
    draft = world["draft"]
    schema = world["root"]
    titled = rng.random() < 0.12
    if titled:
        schema = W.add_titles(schema)       # every subschema has a "title": formats may index into error.schema
    if rng.random() < 0.5:
        schema = dict(schema)
        schema["$schema"] = W.METASCHEMA_IDS[draft] + rng.choice(["", "#"])
    validator = None
    r = rng.random()
    name = {"draft3": "Draft3Validator", "draft4": "Draft4Validator", "draft6": "Draft6Validator",
            "draft7": "Draft7Validator"}[rng.choice([draft, draft, "draft7", "draft4"])]
    if r < 0.2:
        validator = name
    elif r < 0.3:
        validator = "jsonschema." + name
    elif r < 0.35:
        validator = "jsonschema.validators." + name
    tok = "%04x" % rng.randrange(1 << 16)
    spath = "schema-%s.json" % tok
    if rng.random() < 0.05:
        spath = "schema-{%s}.json" % tok
    sstate = rng.choice([None] * 14 + ["invalid", "invalid", "fs_enoent", "fs_torn", "fs_empty", "fs_bitflip",
                                        "fs_bad_utf8", "scalar"])
    if sstate == "invalid":
        schema = break_schema(rng, schema)
    elif sstate == "scalar":
        # valid JSON, but not an object: booleans are schemas in drafts 6/7, the rest never is
        schema = rng.choice([True, False, True, [], "schema", 3, None])
        sstate = None
    sgood = json.dumps(schema, indent=rng.choice([None, 1])).encode("utf-8")
    fs = {}
    sb = apply_fault(rng, sgood, None if sstate == "invalid" else sstate)
    if sb is not None:
        fs[spath] = {"bytes": b64(sb), "fault": sstate}
    base_uri = None
    netdocs = {}
    if rng.random() < 0.15 and sstate is None and isinstance(schema, dict):
        base_uri = "file:///sim/schemas/"
        defs = {"definitions": {"x": {"type": rng.choice(["string", "integer", "object"])}}}
        target = "defs.json" if rng.random() < 0.85 else "nothere.json"
        netdocs["file:///sim/schemas/defs.json"] = defs
        schema = dict(schema)
        schema["properties"] = dict(schema.get("properties", {}), r={"$ref": target + "#/definitions/x"})
        if rng.random() < 0.4:
            # the schema's own id is RELATIVE to --base-uri and has a directory part: references inside it are
            # relative to <base>/v1/, where the real sibling lives; a decoy sits where a second join would look
            schema["$id"] = schema["id"] = "v1/schema.json"
            del netdocs["file:///sim/schemas/defs.json"]
            netdocs["file:///sim/schemas/v1/defs.json"] = defs
            netdocs["file:///sim/schemas/v1/v1/defs.json"] = {"definitions": {"x": {"type": rng.choice(["null", "array"])}}}
            if rng.random() < 0.5:
                schema["properties"]["q"] = {"$ref": "#/properties/r"}
        fs[spath] = {"bytes": b64(json.dumps(schema).encode("utf-8")), "fault": None}
    cwd_base = False
    if base_uri is None and sstate is None and isinstance(schema, dict) and rng.random() < 0.05:
        # --base-uri names an EXISTING DIRECTORY of the real file system, without a trailing slash (what $PWD or
        # Path.as_uri() give): by RFC 3986 - and in the library - relative references then live BESIDE that
        # directory; a decoy with other definitions lives INSIDE it.  {CWD} is the scratch directory of the run.
        cwd_base = True
        base_uri = "file://{CWD}/defs"
        t1 = rng.choice(["string", "integer", "object"])
        netdocs = {"file://{CWD}/num.json": {"definitions": {"x": {"type": t1}}},
                   "file://{CWD}/defs/num.json": {"definitions": {"x": {"type": rng.choice(["null", "array"])}}}}
        schema = dict(schema)
        schema["properties"] = dict(schema.get("properties", {}), r={"$ref": "num.json#/definitions/x"})
        fs[spath] = {"bytes": b64(json.dumps(schema).encode("utf-8")), "fault": None}
    many = None
    if sstate is None and not cwd_base and rng.random() < 0.06:
        # an instance with MANY errors, at a round count (chunked / buffered output code has its edges there)
        many = rng.choice([10, 16, 32, 50, 64, 100, 100, 128, 200, 256, 500, 512, 1000])
        schema = {"items": {"type": "null"}}
        if rng.random() < 0.5:
            schema["$schema"] = W.METASCHEMA_IDS[draft]
        fs[spath] = {"bytes": b64(json.dumps(schema).encode("utf-8")), "fault": None}
    n = rng.choice([0, 1, 2, 2, 3, 3, 4, 5, 6, 9])
    if cwd_base and n == 0:
        n = 2
    use_stdin = n == 0
    fault_kinds = [None] * 10 + ["fs_enoent", "fs_enoent", "fs_torn", "fs_torn", "fs_bitflip", "fs_bitflip",
                                 "fs_empty", "fs_bad_utf8", "fs_bom", "fs_trailing_garbage", "fs_trailing_garbage"]
    if rng.random() < 0.1:
        fault_kinds += ["fs_eisdir", "fs_eacces", "fs_eio_on_read"]
    if cwd_base:
        fault_kinds = [k for k in fault_kinds if k in (None, "fs_torn", "fs_bitflip", "fs_empty", "fs_bad_utf8", "fs_bom",
                                                       "fs_trailing_garbage")]
    if rng.random() < 0.3:
        fault_kinds = [None]            # fault-free configuration
    instances = []
    for i in range(max(n, 1)):
        val = world["instances"][i % len(world["instances"])]
        if rng.random() < 0.3:
            val = rng.choice([{}, [], {"a": 1}, "ab", 1, None, {"a": {"b": [1, "x"]}, "r": 5},
                              1234567, -98765.4321, "a fairly long string value, longer than a chunk", [10, 200, 3000],
                              {"a": "{0} {x} {", "b": "100%s %d %", "c": ["}{", "{error.message}"]},
                              ["{file_name}", "%(x)s", {"a": "{}"}]])
        if base_uri is not None and rng.random() < 0.6:
            # reach the reference that --base-uri serves (property "r"), with a value of one of the types it may demand
            rv = rng.choice(["s", 3, {}, None, [1]])
            val = dict(val, r=rv) if isinstance(val, dict) else {"r": rv}
        if many is not None and i == 0:
            val = [0] * many
        elif many is not None:
            val = rng.choice([[], [None], [None, None]])         # the others are valid: status hinges on the big one
        good = json.dumps(val, indent=rng.choice([None, None, 2])).encode("utf-8")
        if rng.random() < 0.1:
            good = json.dumps({"kéy": "väl €", "a": val}, ensure_ascii=False).encode("utf-8")
        kind = rng.choice(fault_kinds)
        if use_stdin and kind in ("fs_eisdir", "fs_eacces", "fs_enoent"):
            kind = None                 # open() faults do not exist for stdin
        path = "<stdin>" if use_stdin else "inst%d-%s.json" % (i, tok)
        if not use_stdin and rng.random() < 0.12:
            # file names are DATA: braces in them are not replacement fields of anybody's format string
            path = rng.choice(["inst%d-{%s}.json", "{inst%d}-%s.json", "inst%d-%s{.json", "set{{%d}}-%s.json",
                               "{body}%d-%s.json", "inst%d-%s}.json"]) % (i, tok)
        data = apply_fault(rng, good, kind)
        ent = None
        if data is not None:
            ent = {"bytes": b64(data), "fault": kind}
            if rng.random() < 0.25 and not cwd_base:
                ent["short_reads"] = rng.choice([1, 2, 3, 7])
        if use_stdin:
            if ent is None:
                ent = {"bytes": b64(b""), "fault": "fs_empty"}
            instances.append(path)
            fs["<stdin>"] = ent
        else:
            instances.append(path)
            if ent is not None:
                fs[path] = ent
    if not use_stdin and len(instances) >= 2 and rng.random() < 0.12:
        instances.append(rng.choice(instances))          # the same path may be listed twice
    realfs = False
    if cwd_base:
        realfs = True
    elif not use_stdin and base_uri is None and rng.random() < 0.08 and \
            all(e.get("fault") in (None, "fs_torn", "fs_bitflip", "fs_empty", "fs_bad_utf8", "fs_bom", "fs_trailing_garbage",
                                   "invalid") and not e.get("short_reads") for e in fs.values() if isinstance(e, dict)):
        # the same scenario on a REAL directory (the child chdir()s into a scratch dir holding these files; `open`
        # is not injected): whatever file-system API the CLI uses sees the same world.  Some listed names contain
        # shell-pattern characters, next to a sibling file that such a pattern would match.
        realfs = True
        if instances and rng.random() < 0.6:
            j = rng.randrange(len(instances))
            old = instances[j]
            ch = rng.choice("123ab")
            new = old.replace("-", rng.choice(["[%s]-" % ch, "?-", "[%s%s]-" % (ch, ch)]), 1)
            sib = old.replace("-", ch + "-", 1)
            instances = [new if p == old else p for p in instances]
            if old in fs:
                fs[new] = fs.pop(old)
            # the sibling is NOT listed; it is valid where the listed file is not, or the other way round
            fs[sib] = {"bytes": b64(rng.choice([b"[]", b"{}", b"0", b"[1, 2, 3]", b"{\"a\": {\"b\": 7}}", b"not json"])),
                       "fault": None}
    output = rng.choice(["plain", "plain", "plain", "pretty"])
    error_format = None
    if output == "plain" and rng.random() < 0.65:
        error_format = rng.choice(DELIM_FORMATS)
        if rng.random() < 0.08:
            error_format = ""
        if titled:
            error_format = TITLE_FORMAT
    return {"property": PROPERTY, "fs": fs, "schema_path": spath, "instances": [] if use_stdin else instances,
            "stdin": use_stdin, "output": output, "error_format": error_format, "validator": validator,
            "base_uri": base_uri, "netdocs": netdocs, "draft": draft,
            "stdin_tty": bool(use_stdin and rng.random() < 0.25), "realfs": realfs, "mkdirs": ["defs"] if cwd_base else [], "argv_style": rng.choice([0, 0, 1, 2, 3]),
            "crosscheck": bool(tier == "thorough" and rng.random() < 0.01)}


def argv_of(scn):
    # the same command line in the spellings argparse accepts: short / long options, `--opt=value`,
    # options before or after the schema
    style = scn.get("argv_style", 0)
    names = {"i": ["-i", "--instance", "--instance", "-i"][style], "o": ["--output", "--output", "--output", "-o"][style],
             "F": ["--error-format", "--error-format", "--error-format", "-F"][style],
             "V": ["--validator", "--validator", "--validator", "-V"][style]}

    def opt(k, v):
        if style == 2 and not v.startswith("-"):
            return [names[k] + "=" + v]
        return [names[k], v]
    argv = []
    for p in scn["instances"]:
        argv += opt("i", p)
    if scn["output"] != "plain":
        argv += opt("o", scn["output"])
    if scn["error_format"] is not None:
        argv += opt("F", scn["error_format"])
    if scn["validator"]:
        argv += opt("V", scn["validator"])
    if scn["base_uri"]:
        argv += ["--base-uri", scn["base_uri"]]
    if style == 3 and not scn["schema_path"].startswith("-"):
        return [scn["schema_path"]] + argv
    argv.append(scn["schema_path"])
    return argv


# --------------------------------------------------------------------------- simulated file system
def make_fs(scn, stats):
    import errno
    import io

    opened = []

    class Raw(io.RawIOBase):
        def __init__(self, data, chunk, eio):
            self.data = data
            self.pos = 0
            self.chunk = chunk
            self.eio = eio

        def readable(self):
            return True

        def readinto(self, b):
            if self.eio:
                stats["fault:fs_eio_on_read"] = stats.get("fault:fs_eio_on_read", 0) + 1
                raise OSError(errno.EIO, "dsim: I/O error")
            n = len(b)
            if self.chunk:
                n = min(n, self.chunk)
                stats["short_reads_served"] = stats.get("short_reads_served", 0) + 1
            part = self.data[self.pos:self.pos + n]
            b[:len(part)] = part
            self.pos += len(part)
            return len(part)

    class _Tty(io.TextIOWrapper):
        def isatty(self):
            return True

    def textfile(ent, tty=False):
        raw = Raw(unb64(ent["bytes"]), ent.get("short_reads"), ent.get("fault") == "fs_eio_on_read")
        bufsize = 8 if ent.get("short_reads") else 8192
        return (_Tty if tty else io.TextIOWrapper)(io.BufferedReader(raw, buffer_size=bufsize), encoding="utf-8")

    def sim_open(path, mode="r", *a, **k):
        opened.append(path)
        ent = scn["fs"].get(path)
        if ent is None:
            stats["fault:fs_enoent"] = stats.get("fault:fs_enoent", 0) + 1
            raise FileNotFoundError(errno.ENOENT, "No such file or directory", path)
        f = ent.get("fault")
        if f == "fs_eisdir":
            stats["fault:fs_eisdir"] = stats.get("fault:fs_eisdir", 0) + 1
            raise IsADirectoryError(errno.EISDIR, "Is a directory", path)
        if f == "fs_eacces":
            stats["fault:fs_eacces"] = stats.get("fault:fs_eacces", 0) + 1
            raise PermissionError(errno.EACCES, "Permission denied", path)
        if f and f not in ("fs_eio_on_read",):
            stats["fault:" + f] = stats.get("fault:" + f, 0) + 1
        return textfile(ent)

    return sim_open, textfile, opened


# --------------------------------------------------------------------------- reference model
def classify(scn, path):
    ent = scn["fs"].get(path)
    if ent is None:
        return ("missing",)
    if ent.get("fault") in ("fs_eisdir", "fs_eacces", "fs_eio_on_read"):
        return ("oserror",)
    try:
        text = unb64(ent["bytes"]).decode("utf-8")
    except UnicodeDecodeError:
        return ("undecodable",)
    try:
        return ("ok", json.loads(text))
    except ValueError:
        return ("unparsable",)
    except RecursionError:
        return ("oserror",)


def execute(scn):
    import io
    import jsonschema
    from jsonschema import cli, validators as V
    from jsonschema.exceptions import SchemaError
    from dsim.transport import Router, SimTransport
    from dsim.sim import canon_exc

    stats = {}

    def probe(name, n=1):
        stats[name] = stats.get(name, 0) + n

    tmpdir = None
    if scn.get("realfs"):
        import os
        import tempfile
        tmpdir = tempfile.mkdtemp(prefix="dsim-c19-realfs-")
        if scn.get("mkdirs"):
            # {CWD} in the scenario stands for this scratch directory (its random name is scrubbed from every
            # observation below, so that the run stays a pure function of the scenario)
            scn = json.loads(json.dumps(scn).replace("{CWD}", tmpdir))
            for d in scn["mkdirs"]:
                os.mkdir(os.path.join(tmpdir, d))
            probe("base_uri_names_real_directory")
    router = Router().install(False)
    router.default = SimTransport(scn.get("netdocs", {}))
    sim_open, textfile, opened = make_fs(scn, stats)
    if scn.get("realfs"):
        for pth, ent in scn["fs"].items():
            if isinstance(ent, dict) and pth != "<stdin>":
                with open(os.path.join(tmpdir, pth), "wb") as fh:
                    fh.write(unb64(ent["bytes"]))
        os.chdir(tmpdir)
        probe("real_directory_runs")
    else:
        cli.open = sim_open
    out, err = io.StringIO(), io.StringIO()
    stdin = textfile(scn["fs"]["<stdin>"]) if scn["stdin"] else io.StringIO("")
    if scn["stdin"] and scn.get("stdin_tty"):
        # the instance is typed / pasted at a terminal and ended with EOF: the same bytes and the same read faults,
        # but the stream says isatty()
        stdin = textfile(scn["fs"]["<stdin>"], tty=True)
        probe("stdin_is_a_terminal")
    argv = argv_of(scn)
    status = None
    escaped = None
    arguments = None
    try:
        arguments = cli.parse_args(argv)
        default_format = arguments.get("error_format")
        status = cli.run(arguments, stdout=out, stderr=err, stdin=stdin)
    except SystemExit as x:
        status = x.code
    except Exception as x:
        escaped = canon_exc(x)
    stdout, stderr = out.getvalue(), err.getvalue()
    if tmpdir is not None:
        import os
        import shutil
        stdout, stderr = stdout.replace(tmpdir, "{CWD}"), stderr.replace(tmpdir, "{CWD}")
        if escaped is not None:
            escaped = json.loads(json.dumps(escaped).replace(tmpdir, "{CWD}"))
        os.chdir("/")
        shutil.rmtree(tmpdir, ignore_errors=True)
        # on a real directory "was this path opened" is not observable: the per-file oracles below cover it
        opened.extend(scn["instances"])
        opened.append(scn["schema_path"])

    # ---------------------------------------------------------------- model
    inapplicable = []

    def fmt_apply(p, e):
        try:
            return fmt.format(file_name=p, error=e)
        except Exception:
            inapplicable.append(p)      # the user's format does not apply to this error: str.format itself raises
            return ""
    weak = False            # outside the property's quantifier: only "must not report success"
    expect_ok = True
    viol = []
    fmt = scn["error_format"]
    sc = classify(scn, scn["schema_path"])
    inst_paths = scn["instances"] if not scn["stdin"] else ["<stdin>"]
    classes = []
    expected_records = {}    # path -> list of formatted records
    expected_msgs = {}       # path -> list of messages
    unloadable = []
    valid_paths = []
    schema_failed = False
    must_open = []
    if sc[0] != "ok":
        expect_ok = False
        schema_failed = True
        if sc[0] not in CLAIMED_STATES:
            weak = True
        unloadable.append(scn["schema_path"])
    else:
        schema = sc[1]
        cls = None
        if scn["validator"]:
            cls = getattr(jsonschema, scn["validator"].rsplit(".", 1)[-1])
        elif isinstance(schema, (dict, bool)):
            import warnings
            with warnings.catch_warnings():
                warnings.simplefilter("ignore")
                cls = V.validator_for(schema)
        else:
            weak = True          # validator_for() is only defined for object/boolean schemas
            expect_ok = False
            schema_failed = True
        if cls is not None:
            try:
                cls.check_schema(schema)
            except SchemaError as e:
                expect_ok = False
                schema_failed = True
                expected_msgs[scn["schema_path"]] = [e.message]
                if fmt:
                    expected_records[scn["schema_path"]] = [fmt_apply(scn["schema_path"], e)]
                e = None
            except Exception:
                weak = True
                expect_ok = False
                schema_failed = True
        if not schema_failed:
            for p in inst_paths:
                c = classify(scn, p)
                classes.append(c[0])
                must_open.append(p)
                if c[0] != "ok":
                    expect_ok = False
                    if c[0] not in CLAIMED_STATES:
                        weak = True
                    unloadable.append(p)
                    continue
                resolver = None
                if scn["base_uri"] is not None:
                    resolver = V.RefResolver(base_uri=scn["base_uri"], referrer=schema)
                try:
                    errs = list(cls(schema, resolver=resolver).iter_errors(c[1]))
                except Exception:
                    weak = True          # the library itself raises for this (schema, instance): C03 / unresolvable ref
                    expect_ok = False
                    errs = None
                if errs is None:
                    continue
                if errs:
                    expect_ok = False
                    expected_msgs.setdefault(p, []).extend(e.message for e in errs)
                    if fmt:
                        expected_records.setdefault(p, []).extend(fmt_apply(p, e) for e in errs)
                    else:
                        expected_records[p] = None
                else:
                    valid_paths.append(p)
                errs = None
    if inapplicable:
        weak = True
        probe("format_inapplicable_to_an_expected_error")
    elif fmt == TITLE_FORMAT and expected_records:
        probe("indexing_format_applied")
    state = digest([sc[0], classes, scn["output"], bool(fmt), bool(scn["validator"]), bool(scn["base_uri"])])

    # ---------------------------------------------------------------- oracles
    reported_success = (escaped is None and status in (0, None, False))
    if expect_ok and not reported_success:
        viol.append({"oracle": "nonzero-status-for-all-valid", "where": 0,
                     "detail": {"status": status, "escaped": escaped, "stderr": stderr[:300]}})
    if not expect_ok and reported_success:
        viol.append({"oracle": "status-0-despite-failure", "where": 0,
                     "detail": {"status": status, "classes": classes, "schema": sc[0], "stderr": stderr[:300]}})
    if not weak:
        if escaped is not None:
            viol.append({"oracle": "exception-escaped-cli", "where": 0,
                         "detail": {"exc": {"cls": escaped["cls"], "msg": escaped["msg"][:200]}, "classes": classes,
                                    "schema": sc[0]}})
        # (2) every listed instance processed
        if not schema_failed and not scn["stdin"]:
            for i, p in enumerate(must_open):
                if p not in opened:
                    viol.append({"oracle": "instance-not-processed", "where": i,
                                 "detail": {"path": p, "classes": classes, "escaped": escaped and escaped["cls"]}})
                    break
        if escaped is None:
            # (3) error records
            rest = stderr
            if fmt and fmt in DELIM_FORMATS:
                import re
                recs = re.findall(RS + "[^" + RS + US + "]*" + US + "\\\\?\n?", stderr)
                rest = stderr
                for r in recs:
                    rest = rest.replace(r, "", 1)
                want = []
                for p, rs in expected_records.items():
                    want += rs or []
                ambiguous = any(r.count(RS) != 1 or r.count(US) != 1 for r in want)
                if not ambiguous:
                    probe("records_compared", len(want))
                    if sorted(recs) != sorted(want):
                        viol.append({"oracle": "error-records-differ-from-library", "where": 0,
                                     "detail": {"missing": [r for r in want if r not in recs][:3],
                                                "unexpected": [r for r in recs if r not in want][:3],
                                                "n_got": len(recs), "n_want": len(want)}})
            elif fmt == "":
                # an explicitly EMPTY error format (a quiet, status-only run): every error renders as nothing
                probe("empty_format_runs")
                if not unloadable and sc[0] == "ok" and stderr != "":
                    viol.append({"oracle": "stderr-not-through-format", "where": 0, "detail": {"stderr": stderr[:300]}})
                else:
                    for p, msgs in expected_msgs.items():
                        if any(len(m) >= 12 and m in stderr for m in msgs):
                            viol.append({"oracle": "stderr-not-through-format", "where": 0,
                                         "detail": {"path": p, "stderr": stderr[:300]}})
                            break
            else:
                for p, msgs in expected_msgs.items():
                    for m in msgs:
                        if stderr.count(m) < msgs.count(m):
                            viol.append({"oracle": "library-error-missing-from-stderr", "where": 0,
                                         "detail": {"path": p, "message": m[:200]}})
                            break
                if scn["output"] == "plain" and fmt is None and not viol and arguments is not None \
                        and default_format and default_format.endswith("\n") and "{error" in default_format:
                    # default --error-format: one line per error; a line equal to an expected record must occur
                    # exactly as often as the library reports it (errors lost, repeated, or replayed from a
                    # previous instance show up here)
                    # the library's own default format, as parse_args filled it in (never hard-coded here)
                    dfmt = (default_format or "").rstrip("\n")
                    want_lines = []
                    for p in must_open:                      # with multiplicity: a path may be listed twice
                        c = classify(scn, p)
                        if p not in expected_msgs or c[0] != "ok":
                            continue
                        resolver = V.RefResolver(base_uri=scn["base_uri"], referrer=schema) if scn["base_uri"] is not None else None
                        for e in cls(schema, resolver=resolver).iter_errors(c[1]):
                            want_lines.append(dfmt.format(error=e))
                    got_lines = stderr.split("\n")
                    if all("\n" not in w for w in want_lines):
                        probe("default_format_lines_compared", len(want_lines))
                        for w in sorted(set(want_lines)):
                            if got_lines.count(w) != want_lines.count(w):
                                viol.append({"oracle": "error-line-count-differs-from-library", "where": 0,
                                             "detail": {"line": w[:200], "got": got_lines.count(w),
                                                        "want": want_lines.count(w)}})
                                break
            # (4) diagnostics: every unloadable path mentioned outside the records; no valid path mentioned
            for p in unloadable:
                name = p
                if name not in rest:
                    viol.append({"oracle": "no-diagnostic-for-unloadable-file", "where": 0,
                                 "detail": {"path": p, "stderr": stderr[:300]}})
                    break
            for p in valid_paths:
                if p != "<stdin>" and p in stderr:
                    viol.append({"oracle": "diagnostic-for-valid-instance", "where": 0,
                                 "detail": {"path": p, "stderr": stderr[:300]}})
                    break
            if fmt and fmt in DELIM_FORMATS:
                for p in must_open:
                    if p not in unloadable and p != "<stdin>" and p in rest:
                        viol.append({"oracle": "stray-diagnostic-for-loadable-instance", "where": 0,
                                     "detail": {"path": p, "rest": rest[:300]}})
                        break
            # (5) stdout
            if scn["output"] == "plain":
                if stdout != "":
                    viol.append({"oracle": "plain-mode-wrote-stdout", "where": 0, "detail": {"stdout": stdout[:200]}})
            else:
                out_lines = stdout.split("\n")
                for p in sorted(set(valid_paths)):
                    # one header per listing of a valid instance = one stdout LINE naming it (a header may well
                    # name the path more than once on that line)
                    n_lines = sum(1 for line in out_lines if p in line)
                    if n_lines != valid_paths.count(p):
                        viol.append({"oracle": "pretty-success-header-count", "where": 0,
                                     "detail": {"path": p, "count": n_lines, "listed": valid_paths.count(p),
                                                "stdout": stdout[:300]}})
                        break
                for p in must_open + [scn["schema_path"]]:
                    if p not in valid_paths and p != "<stdin>" and p in stdout:
                        viol.append({"oracle": "pretty-success-header-for-non-valid", "where": 0,
                                     "detail": {"path": p, "stdout": stdout[:300]}})
                        break
    # ---------------------------------------------------------------- evidence bookkeeping
    bad_seen = False
    for i, c in enumerate(classes):
        p = must_open[i]
        if bad_seen and p in opened:
            probe("instance_after_faulted_instance_processed")
        if c != "ok" or p in expected_msgs:
            bad_seen = True
    nontrivial = (not schema_failed and len(classes) >= 2 and
                  any((classes[i] != "ok" or must_open[i] in expected_msgs) for i in range(len(classes) - 1)))
    if weak:
        probe("weak_oracle_only")
    stats["ops"] = 1 + len(inst_paths)
    return {"violations": viol, "nontrivial": bool(nontrivial), "stats": stats, "steps": 1 + len(opened),
            "log_digest": digest([status, escaped, stdout, stderr, opened]), "states": [state], "sched": None,
            "observed": {"status": status if isinstance(status, (int, type(None))) else repr(status),
                         "escaped": escaped and escaped["cls"], "stdout": stdout, "stderr": stderr}}


def crosscheck(scn, res):
    """Materialise the scenario in a scratch directory and run the real `python -m jsonschema` process."""
    import os
    import shutil
    import subprocess
    import sys
    import tempfile
    if scn["base_uri"] or any(e.get("fault") in ("fs_eisdir", "fs_eacces", "fs_eio_on_read")
                              for e in scn["fs"].values() if isinstance(e, dict)):
        return []
    tmp = tempfile.mkdtemp(prefix="dsim-c19-")
    try:
        for p, ent in scn["fs"].items():
            if p == "<stdin>" or not isinstance(ent, dict):
                continue
            with open(os.path.join(tmp, p), "wb") as f:
                f.write(unb64(ent["bytes"]))
        stdin = unb64(scn["fs"]["<stdin>"]["bytes"]) if scn["stdin"] else b""
        env = dict(os.environ, PYTHONPATH=os.environ.get("DSIM_REPO", "/repo"), PYTHONIOENCODING="utf-8", PYTHONUTF8="1",
                   LC_ALL="C.UTF-8", LANG="C.UTF-8")
        p = subprocess.run([sys.executable, "-m", "jsonschema"] + argv_of(scn), cwd=tmp, env=env, input=stdin,
                           stdout=subprocess.PIPE, stderr=subprocess.PIPE, timeout=60)
        obs = res["observed"]
        sim_fail = bool(obs["escaped"]) or obs["status"] not in (0, None)
        real_fail = p.returncode != 0
        out = []
        if sim_fail != real_fail:
            out.append({"oracle": "simulated-and-real-process-disagree", "where": 0,
                        "detail": {"sim": [obs["status"], obs["escaped"]], "real": p.returncode,
                                   "real_stderr": p.stderr.decode("utf-8", "replace")[-300:]}})
        elif not obs["escaped"] and (p.stdout.decode("utf-8", "replace") != obs["stdout"]
                                     or p.stderr.decode("utf-8", "replace") != obs["stderr"]):
            out.append({"oracle": "simulated-and-real-process-output-differs", "where": 0,
                        "detail": {"sim_err": obs["stderr"][:300], "real_err": p.stderr.decode("utf-8", "replace")[:300]}})
        return out
    finally:
        shutil.rmtree(tmp, ignore_errors=True)


def run(scn, fork_call):
    res = fork_call(execute, scn)
    if scn.get("crosscheck"):
        extra = crosscheck(scn, res)
        res["stats"]["real_process_crosschecks"] = 1
        # a disagreement between simulation and the real process is a fault of the harness, not of jsonschema
        if extra:
            from dsim.runner import HarnessError
            raise HarnessError("C19 cross-check: %s" % json.dumps(extra)[:1500])
    res.pop("observed", None)
    return res


def violation_class(v):
    return "C19/" + v["oracle"]


def shrink(scn):
    # drop instances (last first), then simplify options, then heal faults
    n = len(scn["instances"])
    for i in range(n - 1, -1, -1):
        if n > 1:
            c = copy.deepcopy(scn)
            p = c["instances"].pop(i)
            c["fs"].pop(p, None)
            yield c
    for key, val in (("validator", None), ("error_format", None), ("output", "plain"), ("base_uri", None)):
        if scn.get(key) != val:
            c = copy.deepcopy(scn)
            c[key] = val
            if key == "output":
                c["error_format"] = scn["error_format"]
            yield c
    for p, ent in scn["fs"].items():
        if isinstance(ent, dict) and ent.get("short_reads"):
            c = copy.deepcopy(scn)
            del c["fs"][p]["short_reads"]
            yield c
    for p, ent in scn["fs"].items():
        if not isinstance(ent, dict):
            continue
        for repl in (b"{}", b"1", b"{"):
            if unb64(ent["bytes"]) != repl and len(unb64(ent["bytes"])) > len(repl):
                c = copy.deepcopy(scn)
                c["fs"][p]["bytes"] = b64(repl)
                yield c


def sample_view(scn):
    fs = {}
    for p, ent in scn["fs"].items():
        if isinstance(ent, dict):
            fs[p] = {"fault": ent.get("fault"), "short_reads": ent.get("short_reads"),
                     "text": unb64(ent["bytes"]).decode("utf-8", "replace")[:160]}
    return {"argv": argv_of(scn), "stdin": scn["stdin"], "fs": fs}


KNOWN = {}


def known_finding(v, scn):
    return None
