"""C07 - validation is pure and history-independent; a validator can be reused forever.

History machine: one validator (explicit resolver, simulated transport, custom
collaborators) lives through a generated history of operations, abandonments
and faults.  After every operation:
  1. history independence: outcome == outcome of the same single operation on
     a fresh validator + fresh resolver built from the pristine world, whose
     handler timelines are in the same state and whose collaborator fault plan
     is the same;
  2. scope restored: resolver.resolution_scope equals its initial value;
  3. purity: instance, root schema and store documents unchanged (store may grow).
"""
import copy
import random
from urllib.parse import urljoin

from dsim import world as W
from dsim.canon import digest, jdump

PROPERTY = "C07"
QUICK_RUNS = 12000
THOROUGH_RUNS = 400000
RULE = ("scenario = seeded world (draft, root schema with definitions, 0-3 remote documents, nested ids, "
        "several spellings per reference, optional unresolvable refs, custom format/type/keyword collaborators) "
        "+ resolver configuration + fault plan + history of 3-14 operations on ONE validator; "
        "non-trivial = some operation abandoned an iterator (close/drop/cyclic drop/consumer died) or ended in an "
        "exception while >=1 extra resolution scope was pushed (measured by reach probe), AND a later operation, "
        "performed by the fresh-validator oracle, resolved >=1 reference; distinct = distinct scenario digests")

REQUIRED_PROBES = ("fault:stack_exhausted", "fault:handler_fail_first", "op_ended_in_exception", "fault:collab_raise", "fault:net_short_body",
                   "fault:gc_inside_operation", "abandon_suspended")
EXPECTED_PROBES = ("abandon_with_scopes_pushed", "abandon_with_2plus_scopes_pushed", "gc_finalised_iterator_and_popped",
                   "consumer_died_with_scopes_pushed")

VALIDATION_OPS = ["is_valid", "exhaust", "validate", "take_close", "take_drop", "take_cycle",
                  "tree", "best_match", "consumer_raises"]
RESOLVER_OPS = ["resolve", "resolving", "in_scope", "resolve_from_url", "resolve_fragment"]


def generate(rng, tier="quick"):
    deep = rng.random() < 0.08
    world = W.gen_world(rng, deep_instance=deep) if tier == "quick" else \
        W.gen_world(rng, ndefs=rng.randint(1, 10), ninstances=rng.randint(2, 7), deep_instance=deep)
    fault_rate = rng.choice([0.0, 0.0, 0.35, 0.6])
    from dsim.sim import gen_cfg
    cfg = gen_cfg(rng, world, fault_rate)
    cfg["default_resolver"] = rng.random() < 0.1          # Validator(schema) without resolver=
    cfg["warnings_are_errors"] = rng.random() < 0.12      # python -W error
    nops = rng.randint(3, 14 if tier == "quick" else 24)
    enabled = [k for k in VALIDATION_OPS if rng.random() < 0.7] or ["is_valid", "take_close"]
    if rng.random() < 0.5:
        enabled.append("gc")        # the collector may run between any two operations
    gc_inside = rng.random() < 0.35     # ... and in the middle of one (at a traced source line)
    if rng.random() < 0.6:
        enabled += [k for k in RESOLVER_OPS if rng.random() < 0.7]
    refs = W.all_ref_strings(world["root"])
    for u in world["docs"]:
        W.all_ref_strings(world["docs"][u], refs)
        refs.append(u)
    refs += ["#", "#/definitions/n0", "d1.json#/definitions/n0", "sub/d1.json#/definitions/n0", "sub/d2.json"]
    ninst = len(world["instances"])
    deep_idx = None
    for j, inst in enumerate(world["instances"]):
        if isinstance(inst, dict) and list(inst) == ["$deep"]:
            deep_idx = j
    ops = []
    for _ in range(nops):
        kind = rng.choice(enabled)
        op = {"op": kind}
        if kind == "gc":
            pass
        elif kind in VALIDATION_OPS:
            op["inst"] = rng.randrange(ninst)
            if deep_idx is not None and rng.random() < 0.35:
                op["inst"] = deep_idx
            is_deep = isinstance(world["instances"][op["inst"]], dict) and list(world["instances"][op["inst"]]) == ["$deep"]
            if gc_inside and rng.random() < 0.3 and not is_deep:
                op["gc_at"] = rng.choice([3, 10, 25, 60, 120, 250, 500])
            if kind in ("take_close", "take_drop", "take_cycle", "consumer_raises"):
                op["k"] = rng.choice([0, 1, 1, 1, 2, 2, 3, 5])
            if kind == "is_valid" and rng.random() < 0.2:
                if rng.random() < 0.5:
                    op["elsewhere"] = "whole"            # the whole call runs on another thread (sequentially)
                else:
                    op["sub"] = rng.randrange(8)         # is_valid(instance, <a subschema object of the root>)
            if kind in ("exhaust", "take_close", "take_drop", "take_cycle") and rng.random() < 0.15:
                op["sub"] = rng.randrange(8)             # iter_errors(instance, <a subschema object of the root>)
            if kind in ("take_close", "take_drop") and rng.random() < 0.15:
                # the iterator is handed to another thread (sequentially): started there, or finished there
                op["elsewhere"] = rng.choice(["start", "finish"])
        elif kind == "resolve":
            op["ref"] = rng.choice(refs)
        elif kind == "resolve_from_url":
            op["ref"] = urljoin(world.get("root_url") or "http://sim.test/root/root.json", rng.choice(refs))
        elif kind == "resolve_fragment":
            op["doc"] = rng.choice(sorted(world["docs"]) + [""])
            op["frag"] = rng.choice(["", "/definitions/n0", "/definitions", "/nowhere", "/definitions/n1/items",
                                     "/definitions/~01", "/definitions/~1", "/definitions/~00", "/definitions/~0"])
        elif kind == "resolving":
            op["ref"] = rng.choice(refs)
            op["body_raises"] = rng.random() < 0.5
            if rng.random() < 0.4:
                op["inner"] = rng.choice(refs)
        elif kind == "in_scope":
            op["scope"] = rng.choice(["sub/", "http://sim.test/root/sub/", "#x", "../q.json"] + list(world["docs"]))
            op["ref"] = rng.choice(refs + [None])
            op["body_raises"] = rng.random() < 0.5
        ops.append(op)
    if rng.random() < 0.03 and len(ops) >= 2:
        # a long-lived validator that has seen MANY remote documents (whatever bound a resolver puts on what it keeps
        # must never cost it its own root schema or the caller's store documents): 70-140 tiny documents, all
        # resolved by one operation somewhere before the end of the history
        n = rng.choice([70, 100, 140])
        for j in range(n):
            world["docs"]["http://sim.test/bulk/%d.json" % j] = {"definitions": {"n0": {"type": "integer"}}}
        ops.insert(rng.randrange(0, len(ops) - 1), {"op": "resolve_bulk", "n": n})
    return {"property": PROPERTY, "world": world, "cfg": cfg, "ops": ops,
            "requests": rng.random() < 0.4}


def _stack_exhausted(o):
    e = o.get("exc") or {}
    return e.get("cls") == "RecursionError" or "maximum recursion depth" in (e.get("msg") or "")


def same(a, b):
    if _stack_exhausted(a) or _stack_exhausted(b):
        # where exactly the stack runs out depends on how warm the caches are (a cache hit needs fewer frames):
        # "died of stack exhaustion" is the whole outcome, on both sides
        return _stack_exhausted(a) and _stack_exhausted(b)
    if a.get("k") != b.get("k"):
        return False
    if a["k"] == "errors" and a.get("complete") and b.get("complete"):
        return sorted(jdump(e) for e in a["errs"]) == sorted(jdump(e) for e in b["errs"])
    return jdump(a) == jdump(b)


def execute(scn):
    """Runs inside a forked child."""
    import gc
    from dsim.sim import Actor, do_op
    from dsim.transport import Router
    import jsonschema

    world, cfg = scn["world"], scn["cfg"]
    router = Router().install(scn.get("requests", False))
    instances = world["instances"]
    if cfg.get("warnings_are_errors"):
        # the interpreter was started with -W error (test suites do that): any warning the library issues while it
        # works is an exception raised at that very line.  (Set before anything is built: it is ambient state.)
        import warnings
        warnings.simplefilter("error")
    actor = Actor(world, cfg, router)
    if cfg.get("warnings_are_errors"):
        actor.probe("warnings_are_errors")

    class CountingResolver(jsonschema.RefResolver):
        n_resolve = 0

        def resolve(self, ref):
            CountingResolver.n_resolve += 1
            return jsonschema.RefResolver.resolve(self, ref)

    violations = []
    log = []
    armed = False          # an abandonment/fault happened while scopes were pushed
    nontrivial = False
    steps = 0
    states = []
    from dsim import canon
    for i, op in enumerate(scn["ops"]):
        if canon.nodes() > 25000:
            # exponential error trees: the rest of the history is dropped (a count, not a clock)
            actor.probe("history_cut_short_heavy_error_trees")
            break
        calls_before = dict(actor.transport.calls)
        pr0 = dict(actor.probes)
        d_before = None
        out = do_op(actor, op, instances)
        if op["op"] == "take_cycle":
            # the memory manager (simulated: gc seam) finalises the abandoned iterator
            # before the next operation on this validator
            do_op(actor, {"op": "gc"}, instances)
        steps += 1 + len(out.get("errs", ()))
        for viol in actor.check_invariants(i, ended_in_exception=(out.get("k") == "raised" or bool(out.get("exc")))):
            viol["op"] = op["op"]
            violations.append(viol)
        if out.pop("_instance_mutated", False):
            violations.append({"oracle": "instance-mutated", "where": i, "op": op["op"], "detail": {}})
        if op["op"] == "gc":
            log.append([i, "gc", digest(out)])
            continue
        # ---- oracle: fresh validator, fresh resolver, same timeline state, same op
        fresh = Actor(world, cfg, router, calls=calls_before)
        fresh.resolver.__class__ = CountingResolver  # counts resolve() for the non-triviality rule only
        CountingResolver.n_resolve = 0
        exp = do_op(fresh, op, instances)
        exp.pop("_instance_mutated", None)
        if op["op"] == "take_cycle":
            gc.collect()
        resolved_refs = CountingResolver.n_resolve
        if _stack_exhausted(exp) and not _stack_exhausted(out) and "inst" in op and \
                isinstance(instances[op["inst"]], dict) and list(instances[op["inst"]]) == ["$deep"]:
            # under the stack-exhaustion fault the FRESH validator died and the reused one did not: a cold cache
            # needs a frame or two more per level than a warm one (an lru hit does not call the wrapped function), so
            # an instance whose depth sits exactly on the limit separates them.  That is the resource boundary, not
            # a memory of earlier instances; the opposite direction (reused dies, fresh does not) stays a violation.
            actor.probe("stack_limit_between_cold_and_warm_caches")
        elif not same(out, exp):
            violations.append({"oracle": "history-dependent", "where": i, "op": op["op"],
                               "detail": {"got": out, "fresh": exp}})
        # ---- bookkeeping for evidence
        if armed and resolved_refs > 0:
            nontrivial = True
        fired_now = any(actor.probes.get(k, 0) > pr0.get(k, 0) for k in
                        ("abandon_with_scopes_pushed", "consumer_died_with_scopes_pushed"))
        if _stack_exhausted(out):
            actor.probe("fault:stack_exhausted")
        if out.get("k") == "raised" or out.get("exc"):
            actor.probe("op_ended_in_exception")
            if resolved_refs > 0:
                fired_now = True
        if fired_now:
            armed = True
        log.append([i, op["op"], digest(out)])
        states.append(digest([op["op"], out.get("k"), len(out.get("errs", ())), sorted(actor.resolver.store.keys())]))
        del fresh
    stats = dict(actor.probes)
    for k, v in actor.transport.fired.items():
        stats["fault:" + k] = v
    stats["fault:collab_raise"] = actor.collab.fired
    stats["collab_calls"] = actor.collab.total_calls
    stats["transport_calls"] = len(actor.transport.log)
    stats["ops"] = len(scn["ops"])
    return {"violations": violations, "nontrivial": nontrivial, "stats": stats, "steps": steps,
            "log_digest": digest(log), "states": states, "sched": None}


def run(scn, fork_call):
    from dsim.runner import HarnessError
    deep = any(isinstance(i, dict) and list(i) == ["$deep"] for i in scn["world"]["instances"])
    try:
        # (a deep-instance history normally takes well under a second; an exponential one is given up early)
        return fork_call(execute, scn, timeout=15.0) if deep else fork_call(execute, scn)
    except HarnessError as e:
        if deep and "timed out" in str(e):
            # a branching recursive schema over a deep instance is exponential: the run is inconclusive, not broken
            return {"violations": [], "nontrivial": False, "stats": {"deep_instance_run_too_long": 1},
                    "steps": 0, "log_digest": digest(["too-long"]), "states": [], "sched": None}
        if deep and any(("status %d;" % c) in str(e) for c in (6, 134, 11, 139, 7, 135)):
            # "Fatal Python error: Cannot recover from stack overflow": the interpreter itself gave up while a
            # RecursionError was being handled (it aborts when handlers recurse 50 frames further).  That is the
            # stack-exhaustion fault killing the whole process, not an observation about the property and not a
            # fault of the harness: the run is inconclusive and counted as such.  (SIGSEGV / SIGBUS - status 11 / 7 -
            # is the same event one level further down: the C stack itself ran out; seen once, on a loaded machine.)
            return {"violations": [], "nontrivial": False, "stats": {"interpreter_aborted_on_stack_overflow": 1},
                    "steps": 0, "log_digest": digest(["aborted"]), "states": [], "sched": None}
        raise


def violation_class(v):
    return "C07/" + v["oracle"]


def shrink(scn):
    """Yield smaller candidate scenarios (most aggressive first)."""
    from dsim.minimise import shrink_ops, shrink_json_at
    for c in shrink_ops(scn, "ops"):
        yield c
    if scn["cfg"].get("faults"):
        for u in list(scn["cfg"]["faults"]):
            c = copy.deepcopy(scn)
            del c["cfg"]["faults"][u]
            yield c
    if scn["world"].get("triggers"):
        for kind in list(scn["world"]["triggers"]):
            c = copy.deepcopy(scn)
            del c["world"]["triggers"][kind]
            yield c
    for i, op in enumerate(scn["ops"]):
        if op.get("gc_at"):
            c = copy.deepcopy(scn)
            del c["ops"][i]["gc_at"]
            yield c
        if op.get("elsewhere"):
            c = copy.deepcopy(scn)
            del c["ops"][i]["elsewhere"]
            yield c
        if op.get("k", 0) > 0:
            c = copy.deepcopy(scn)
            c["ops"][i]["k"] = op["k"] - 1
            yield c
        if op["op"] in ("take_cycle", "take_drop", "consumer_raises", "tree", "best_match", "validate"):
            c = copy.deepcopy(scn)
            c["ops"][i]["op"] = "take_close" if "k" in op else "is_valid"
            yield c
    for key, val in (("urljoin_cache", "lru"), ("remote_cache", "lru"), ("base_mode", "from_schema"),
                     ("cache_remote", True)):
        if scn["cfg"].get(key) != val:
            c = copy.deepcopy(scn)
            c["cfg"][key] = val
            yield c
    if scn.get("requests"):
        c = copy.deepcopy(scn)
        c["requests"] = False
        yield c
    for path in (["world", "instances"], ["world", "root"], ["world", "docs"]):
        for c in shrink_json_at(scn, path, keep_list_length=(path[-1] == "instances")):
            yield c


def sample_view(scn):
    return {"draft": scn["world"]["draft"], "root": scn["world"]["root"],
            "docs": sorted(scn["world"]["docs"]), "cfg": scn["cfg"], "ops": scn["ops"],
            "instances": scn["world"]["instances"]}


def known_finding(v, scn):
    return None
