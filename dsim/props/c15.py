"""C15 - reference retrieval and caching are transparent, frugal and offline-safe.

One history of validations and direct resolutions is executed in lock-step
under a matrix of resolver configurations (cache_remote on/off x urljoin cache
x remote cache in {default lru, pass-through, tiny evicting lru}), each with its
own simulated transport carrying the *same* monotone fault plan.

Oracles (after every operation):
  transparency   outcome identical across all configurations
  frugality      cache_remote on: per document URL at most one successful
                 transport call per resolver, and no transport call after it
  store-growth   cache_remote off: set of store keys never changes
  failure        an operation during which the transport failed ends in
                 RefResolutionError (not another exception, not a verdict)
  stale-failure  a transport-originated RefResolutionError is only reported by
                 an operation in which the transport really failed (failed
                 retrievals are not cached)
  offline        no transport call for a bundled metaschema id (any spelling)
                 or for a URL supplied in store=
"""
import copy

from dsim import world as W
from dsim.canon import digest, jdump
from dsim.props.c07 import same

PROPERTY = "C15"
QUICK_RUNS = 6000
THOROUGH_RUNS = 200000
RULE = ("scenario = seeded world with 1-4 external documents referenced through several spellings/fragments, "
        "documents pre-seeded in store=, references to bundled metaschemas, a monotone fault plan per URL "
        "(handler / urlopen / requests routes) and a history of 2-12 validations and direct resolutions, executed "
        "in lock-step under 6 (quick) or 10 (thorough) of the 18 cache configurations; non-trivial = >=2 operations, "
        ">=1 transport call logged, and some external document that was really fetched is referenced through >=2 "
        "distinct reference strings; distinct = distinct scenario digests")
STATE_MEASURE = "hash of (operation kind, outcome kind, per-configuration store key sets, per-configuration fetch counts) per step"
REQUIRED_PROBES = ("transport_calls", "cache_hit_after_success", "op_with_transport_failure",
                   "refetch_without_cache_remote", "metaschema_ref_resolved", "store_doc_resolved")

OPS = ["is_valid", "exhaust", "validate", "take_close", "take_drop", "resolve", "resolving", "resolve_from_url",
       "resolving", "in_scope", "is_valid", "resolve", "resolve_remote", "resolve_fragment", "set_handler"]
KINDS = ["lru", "pass", "tiny"]


def generate(rng, tier="quick"):
    from dsim.sim import gen_cfg
    world = W.gen_world(rng, ndocs=rng.choice([1, 2, 2, 3, 4]),
                        metaschema_refs=rng.random() < 0.5,
                        store_rate=rng.choice([0.0, 0.3, 0.5]),
                        ref_rate=rng.choice([0.4, 0.55, 0.7]),
                        unresolvable_rate=rng.choice([0.0, 0.0, 0.05]),
                        custom_types=False, custom_keywords=False, formats=False,
                        odd_ids=False,      # (invalid schemas: WHICH TypeError an unhashable id raises depends on the cache)
                        ndefs=rng.randint(2, 8))
    fault_rate = rng.choice([0.0, 0.3, 0.5, 0.8])
    base = gen_cfg(rng, world, fault_rate)
    for f in base["faults"].values():
        # a handler that returns text makes the document depend on the ROUTE it arrives by (urlopen always parses);
        # with handlers that come and go in the middle of a history a cache would then legitimately change outcomes
        f.pop("returns", None)
    tiny = rng.choice(["lru1", "lru2"])
    matrix = [(cr, uj, rc) for cr in (True, False) for uj in KINDS for rc in KINDS]
    fixed = [(True, "lru", "lru"), (False, "pass", "pass"), (False, "lru", "lru")]
    rest = [m for m in matrix if m not in fixed]
    rng.shuffle(rest)
    chosen = fixed + rest[:(3 if tier == "quick" else 7)]
    nextra = rng.choice([0, 0, 1, 2])
    extra = []
    for _ in range(nextra):
        u = rng.choice(sorted(world["docs"]))
        names = sorted(world["docs"][u].get("definitions", {})) if isinstance(world["docs"][u], dict) else []
        extra.append(u + rng.choice(["", "#"]) if not names or rng.random() < 0.3
                     else u + "#/definitions/" + W.ptr_token(rng.choice(names)))
    base["extra_validators"] = extra
    configs = []
    for cr, uj, rc in chosen:
        c = copy.deepcopy(base)
        c["cache_remote"] = cr
        c["urljoin_cache"] = tiny if uj == "tiny" else uj
        c["remote_cache"] = tiny if rc == "tiny" else rc
        configs.append(c)
    refs = W.all_ref_strings(world["root"])
    for u in world["docs"]:
        W.all_ref_strings(world["docs"][u], refs)
    absolute = []
    for u in world["docs"]:
        absolute += [u, u + "#", u + "#/definitions/n0", u + "#/definitions"]
    for mid in sorted(W.METASCHEMA_IDS.values()):
        absolute += [mid, mid + "#", mid + "#/properties/type", mid + "#/properties"]
    absolute.append("http://sim.test/root/missing.json")
    refs = refs + absolute
    nops = rng.randint(2, 12 if tier == "quick" else 20)
    ninst = len(world["instances"])
    ops = []
    for _ in range(nops):
        kind = rng.choice(OPS)
        op = {"op": kind}
        if kind in ("is_valid", "exhaust", "validate", "take_close", "take_drop"):
            op["inst"] = rng.randrange(ninst)
            op["v"] = rng.randrange(1 + nextra)
            if kind.startswith("take"):
                op["k"] = rng.choice([0, 1, 1, 2, 3])
        elif kind == "resolve_from_url":
            op["ref"] = rng.choice(absolute)
        elif kind == "set_handler":
            # resolver.handlers is a public, mutable mapping: the user registers, replaces or removes a handler later
            op["scheme"] = rng.choice(["http", "https", "sim", "urn"])
            op["action"] = rng.choice(["add", "add", "replace", "del"])
        elif kind == "resolve_remote":
            # the fetch primitive called directly: only documents that are legitimately remote
            remote = [u for u in sorted(world["docs"]) if u not in world.get("store_docs", ())]
            op["ref"] = rng.choice(remote + ["http://sim.test/root/missing.json"])
        elif kind == "resolve_fragment":
            op["doc"] = rng.choice(sorted(world["docs"]) + [""])
            op["frag"] = rng.choice(["", "/definitions/n0", "/definitions", "/definitions/n1/items", "/nowhere",
                                     "/definitions/n0/properties/a", "/definitions/n%300", "/definitions/~0", "/definitions/~01", "/definitions/~1",
                                     "/definitions/~00", "/definitions/a~1b", "/definitions/p%25q"])
        elif kind == "in_scope":
            op["scope"] = rng.choice(["sub/", "http://sim.test/root/sub/", "#x"] + sorted(world["docs"]))
            op["ref"] = rng.choice(refs)
            op["body_raises"] = rng.random() < 0.2
        else:
            op["ref"] = rng.choice(refs)
            if kind == "resolving":
                op["body_raises"] = rng.random() < 0.3
                if rng.random() < 0.6:
                    op["inner"] = rng.choice(refs)      # resolve again from inside the entered reference
        ops.append(op)
    return {"property": PROPERTY, "world": world, "configs": configs, "ops": ops,
            "requests": rng.random() < 0.4, "warnings_are_errors": rng.random() < 0.1}


def execute(scn):
    from dsim.sim import Actor, do_op
    from dsim.transport import Router, norm
    world = scn["world"]
    router = Router().install(scn.get("requests", False))
    if scn.get("warnings_are_errors"):
        import warnings
        warnings.simplefilter("error")      # python -W error: a warning issued by the library is an exception there
    instances = world["instances"]
    actors = [Actor(world, cfg, router) for cfg in scn["configs"]]
    first_ok = [dict() for _ in actors]     # url -> log index of first success
    keys0 = [sorted(a.resolver.store.keys()) for a in actors]
    meta = set(norm(u) for u in W.METASCHEMA_IDS.values())
    stored = set(norm(u) for u in world.get("store_docs", ()))
    violations = []
    log = []
    states = []
    stats = {}

    def probe(name, n=1):
        stats[name] = stats.get(name, 0) + n

    steps = 0
    for i, op in enumerate(scn["ops"]):
        outs = []
        for ci, a in enumerate(actors):
            cfg = scn["configs"][ci]
            n0 = len(a.transport.log)
            if op["op"] == "set_handler":
                h = a.resolver.handlers
                if op["action"] == "del":
                    h.pop(op["scheme"], None)
                elif op["action"] == "replace" and op["scheme"] in h:
                    h[op["scheme"]] = a.transport.handler_alt
                else:
                    h[op["scheme"]] = a.transport.handler
                probe("handlers_mapping_changed_later")
                out = {"k": "none"}
            else:
                out = do_op(a, op, instances)
            out.pop("_instance_mutated", None)
            steps += 1 + len(out.get("errs", ()))
            window = a.transport.log[n0:]
            failed = [w for w in window if w[2] in ("fail", "missing")]
            exc = out.get("exc") if out.get("k") in ("raised", "errors") else None
            # -- failure surface
            direct = op["op"] == "resolve_remote"     # always retrieves; raises whatever the route raised
            if direct:
                probe("direct_resolve_remote")
            elif failed:
                probe("op_with_transport_failure")
                if not exc or not exc.get("rre"):
                    violations.append({"oracle": "failure-not-RefResolutionError", "where": i, "config": ci,
                                       "op": op["op"], "detail": {"transport": failed[:3], "outcome": out}})
            elif exc and exc.get("rre") and "dsim:" in exc.get("msg", ""):
                violations.append({"oracle": "stale-failure-reported", "where": i, "config": ci, "op": op["op"],
                                   "detail": {"outcome": out, "window": window[:3]}})
            # -- the route each retrieval took is the one the resolver's handlers mapping names NOW
            for w in window:
                from urllib.parse import urlsplit
                hs = a.resolver.handlers.get(urlsplit(w[1]).scheme)
                want = "handler" if hs == a.transport.handler else "handler2" if hs == a.transport.handler_alt else None
                if (want is None and w[0] in ("handler", "handler2")) or (want is not None and w[0] != want):
                    violations.append({"oracle": "retrieval-not-through-the-registered-handler", "where": i, "config": ci,
                                       "op": op["op"], "detail": {"url": w[1], "route": w[0], "registered": want}})
                    break
            # -- frugality
            for j, w in enumerate(window):
                u = w[1]
                if u in first_ok[ci]:
                    if direct:
                        probe("direct_refetch")
                    elif cfg["cache_remote"]:
                        violations.append({"oracle": "fetched-again-despite-cache_remote", "where": i, "config": ci,
                                           "op": op["op"], "detail": {"url": u, "route": w[0]}})
                    else:
                        probe("refetch_without_cache_remote")
                elif w[2] == "ok":
                    first_ok[ci][u] = n0 + j
            if cfg["cache_remote"] and not window and first_ok[ci]:
                probe("cache_hit_after_success")
            # -- store growth
            keys = sorted(a.resolver.store.keys())
            if not cfg["cache_remote"] and keys != keys0[ci]:
                violations.append({"oracle": "store-grew-with-cache_remote-off", "where": i, "config": ci,
                                   "op": op["op"], "detail": {"new": [k for k in keys if k not in keys0[ci]]}})
            # -- offline safety
            if a.transport.forbidden_hits:
                violations.append({"oracle": "retrieval-of-local-document", "where": i, "config": ci, "op": op["op"],
                                   "detail": {"hits": a.transport.forbidden_hits[:3]}})
                a.transport.forbidden_hits = []
            outs.append(out)
        ref = op.get("ref")
        if ref and out.get("k") == "value":
            from urllib.parse import urldefrag
            tgt = out["v"][0] if op["op"] == "resolve" else None
            r0 = norm(urldefrag(ref)[0])
            if r0 in meta:
                probe("metaschema_ref_resolved")
            if r0 in stored:
                probe("store_doc_resolved")
        for ci in range(1, len(outs)):
            if not same(outs[0], outs[ci]):
                violations.append({"oracle": "outcome-differs-across-cache-configurations", "where": i, "config": ci,
                                   "op": op["op"],
                                   "detail": {"config0": scn["configs"][0], "configN": scn["configs"][ci],
                                              "got0": outs[0], "gotN": outs[ci]}})
                break
        log.append([i, op["op"], [digest(o) for o in outs]])
        states.append(digest([op["op"], outs[0].get("k"),
                              [sorted(a.resolver.store.keys()) for a in actors],
                              [sorted(a.transport.ok.items()) for a in actors]]))
        from dsim import canon
        if canon.nodes() > 25000:
            # exponential error trees (thousands of nested oneOf/anyOf errors per outcome, times the number of
            # configurations): the rest of the history is dropped - deterministically, by a count, not a clock
            probe("history_cut_short_heavy_error_trees")
            break
    calls = sum(len(a.transport.log) for a in actors)
    stats["transport_calls"] = calls
    stats["ops"] = len(scn["ops"]) * len(actors)
    for a in actors:
        for k, v in a.transport.fired.items():
            stats["fault:" + k] = stats.get("fault:" + k, 0) + v
        for route, u, res in a.transport.log:
            stats["route:" + route] = stats.get("route:" + route, 0) + 1
    # non-triviality: a really-fetched document that is referenced through >= 2 distinct strings
    fetched = set()
    for a in actors:
        fetched.update(a.transport.ok)
    by_url = {}
    for s, u in world.get("reflog", ()):
        by_url.setdefault(norm(u), set()).add(s)
    multi = any(len(v) >= 2 and u in fetched for u, v in by_url.items())
    nontrivial = bool(multi and len(scn["ops"]) >= 2 and calls >= 1)
    return {"violations": violations, "nontrivial": nontrivial, "stats": stats, "steps": steps,
            "log_digest": digest(log), "states": states, "sched": None}


def run(scn, fork_call):
    return fork_call(execute, scn)


def violation_class(v):
    return "C15/" + v["oracle"]


def shrink(scn):
    from dsim.minimise import shrink_ops, shrink_json_at
    for c in shrink_ops(scn, "ops"):
        yield c
    # fewer configurations (keep >= 2)
    n = len(scn["configs"])
    if n > 2:
        for i in range(n - 1, -1, -1):
            c = copy.deepcopy(scn)
            del c["configs"][i]
            yield c
    for u in list(scn["configs"][0].get("faults", {})):
        c = copy.deepcopy(scn)
        for cfg in c["configs"]:
            cfg["faults"].pop(u, None)
        yield c
    for i, op in enumerate(scn["ops"]):
        if op.get("k", 0) > 0:
            c = copy.deepcopy(scn)
            c["ops"][i]["k"] = op["k"] - 1
            yield c
    if scn.get("requests"):
        c = copy.deepcopy(scn)
        c["requests"] = False
        yield c
    for path in (["world", "instances"], ["world", "root"], ["world", "docs"]):
        for c in shrink_json_at(scn, path, keep_list_length=(path[-1] == "instances")):
            yield c


def sample_view(scn):
    return {"draft": scn["world"]["draft"], "root": scn["world"]["root"], "docs": scn["world"]["docs"],
            "store_docs": scn["world"]["store_docs"],
            "configs": [[c["cache_remote"], c["urljoin_cache"], c["remote_cache"]] for c in scn["configs"]],
            "faults": scn["configs"][0]["faults"], "handler_schemes": scn["configs"][0]["handler_schemes"],
            "ops": scn["ops"]}


def known_finding(v, scn):
    return None


COMPONENTS = {
    "real": ["every module of jsonschema/ under /repo (RefResolver, URIDict, keyword functions, validators)"],
    "stubs": ["network transport: scheme handlers, jsonschema.validators.urlopen, sys.modules['requests']",
              "caller-supplied cache functions (pass-through and tiny lru) - part of the configuration space"],
}
