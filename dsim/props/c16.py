"""C16 - deriving checkers and validator classes never disturbs the originals.

History machine over a growing population of objects (TypeCheckers, validator
classes, validator instances, FormatCheckers).  Every object gets a *probe
vector* (behaviour on a fixed battery) recorded at creation; after every later
operation - including operations that fail half-way and derivations performed
while an older object's error iterator is suspended - every existing object is
probed again and must answer exactly as recorded.  A model of the class-wide
format registry predicts what FormatChecker() created *now* must contain.
"""
import copy

from dsim.canon import digest, jdump

PROPERTY = "C16"
QUICK_RUNS = 1600
THOROUGH_RUNS = 150000
RULE = ("scenario = history of 4-20 derivation operations (TypeChecker.redefine/redefine_many/remove incl. unknown "
        "names, extend with keyword overrides/additions and/or a type checker, create with/without version, deprecated "
        "default_types and types= arguments incl. the illegal combinations, checker.checks, FormatChecker.cls_checks, "
        "FormatChecker(formats=subset) incl. unknown names, suspend/resume of an older object's error iterator) over the "
        "four base drafts; non-trivial = >=2 successful derivations, >=1 of them touching shared structure (keyword "
        "table, type map, class-wide format registry), and >=1 probe of an object older than the latest derivation; "
        "distinct = distinct scenario digests")
STATE_MEASURE = "hash of (population sizes per kind, class-wide format registry names, number of suspended iterators) per step"
REQUIRED_PROBES = ("failed_derivation_checked", "resume_after_derivation", "cls_checks_after_instance_created",
                   "override_vs_parent_compared", "noop_extend_compared", "probe_vectors_compared")
COMPONENTS = {
    "real": ["jsonschema/validators.py (create, extend, validates), _types.py, _format.py, keyword functions under /repo"],
    "stubs": ["custom type / keyword / format behaviours (named, from dsim.behaviours)", "network sealed"],
}
ASSUMPTIONS = [
    "sampling, not proof; 'every input' is represented by a fixed probe battery (types, formats, id-relative refs, overridden keywords)",
]

ZOO = [None, True, 0, 1, 2, 3, 1.0, 1.5, "", "ab", "abc", [], [1], {}, {"a": 1}]
TYPE_NAMES = ["any", "array", "boolean", "integer", "object", "null", "number", "string", "even", "nonempty", "ghost"]
FMT_NAMES = ["sim-evenlen", "sim-lower", "sim-noz", "ipv4", "date", "regex", "ghost-format"]
FMT_ZOO = ["", "ab", "abc", "ABC", "z", "1.2.3.4", "2020-01-01", "(", 5]
BATTERY = [
    ("b1", {"type": "integer"}, [1, 1.0, True], None),
    ("b2", {"type": ["even", "string"]}, [2, 3, "s"], None),
    ("b3", {"type": "nonempty"}, ["", "a"], None),
    ("b4", {"minimum": 5, "maximum": 10}, [3, 12], None),
    ("b5", {"properties": {"a": {"$ref": "#/definitions/s"}}, "definitions": {"s": {"type": "string"}}},
     [{"a": 1}, {"a": "x"}], None),
    ("b6", {"id": "http://ida.test/root.json", "$id": "http://idb.test/root.json",
            "properties": {"a": {"$ref": "http://ida.test/root.json#/definitions/s"},
                           "b": {"$ref": "http://idb.test/root.json#/definitions/s"}},
            "definitions": {"s": {"type": "string"}}}, [{"a": 1}, {"b": 1}], None),
    ("b7", {"format": "sim-evenlen"}, ["abc", "ab"], "fc0"),
    ("b7b", {"format": "ipv4"}, ["1.2.3.4", "x"], "draft7"),
    ("b8", {"x-marker": "int", "x-also": {"type": "string"}}, [1, "a"], None),
    ("b9", {"enum": [1, "a"]}, [True, "b"], None),
    ("b10", {"items": {"type": "string"}, "additionalProperties": False, "properties": {"a": {}}},
     [["a", 1, 2], {"b": 1}], None),
    ("b11", {"required": ["a"], "maxLength": 1}, [{}, "abc"], None),
    ("b12", {"const": 1, "contains": {"type": "integer"}}, [1, [1], ["a"]], None),
    ("b13", {"multipleOf": 2, "divisibleBy": 3}, [4, 9], None),
    ("b14", {"minimum": 5, "exclusiveMinimum": True, "maximum": 10, "exclusiveMaximum": True}, [5, 10], None),
    ("b15", {"items": [{"type": "string"}], "additionalItems": False}, [["a", 1]], None),
    ("b16", {"properties": {"a": {}}, "patternProperties": {"^b": {}}, "additionalProperties": False},
     [{"a": 1, "b": 1, "c": 1}], None),
    ("b17", {"$ref": "#/definitions/s", "minimum": 100, "maxLength": 0, "definitions": {"s": {"type": "integer"}}},
     [1, "x"], None),
    # every remaining built-in keyword of the four drafts occurs in some probe WITHOUT most of the others, so
    # that an override of keyword K can be compared on schemas that never mention K (cross-keyword coupling)
    ("b18", {"dependencies": {"bar": ["foo"], "baz": {"minProperties": 3}}},
     [{"bar": 1}, {"bar": 1, "foo": None}, {"baz": 1}], None),
    ("b19", {"allOf": [{"minLength": 2}], "anyOf": [{"maxItems": 0}, {"minItems": 2}], "oneOf": [{}, {"pattern": "^a"}]},
     ["a", [1], "ab", "b"], None),
    ("b20", {"not": {"uniqueItems": True}, "if": {"maxProperties": 0}, "then": {"const": {}}, "else": {"propertyNames": {"pattern": "^k"}}},
     [[1, 1], [1, 2], {}, {"x": 1}], None),
    ("b21", {"disallow": ["string"], "extends": {"maxItems": 1}, "exclusiveMinimum": 3, "exclusiveMaximum": 9},
     ["s", [1, 2], 3, 9.5], None),
    ("b22", {"additionalItems": {"maximum": 1}, "contains": {"multipleOf": 2}, "uniqueItems": True},
     [[3, 3], [2, 5]], None),
    # an id NEXT TO a $ref changes the base that very $ref is resolved against (drafts 3-7): with the id the
    # reference lands in the root document, without it it leaves for a document nobody has
    ("b23", {"id": "http://ida.test/a/root.json", "$id": "http://idb.test/a/root.json",
             "properties": {"a": {"id": "http://ida.test/a/b/", "$id": "http://idb.test/a/b/",
                                  "$ref": "../root.json#/definitions/s"}},
             "definitions": {"s": {"type": "string"}}}, [{"a": 1}, {"a": "x"}], None),
    # booleans where a schema is expected (every draft's classes evaluate them the same way, derived or not)
    ("b24", {"properties": {"a": False, "b": True}, "anyOf": [False, {"maxProperties": 1}], "not": False,
             "dependencies": {"b": True}},
     [{"a": 1}, {"b": 1}, {"b": 1, "c": 2}], None),
    # the bundled metaschemas, reached BY URL through a freshly built default resolver (what a later registration
    # under a draft's id must not change for the draft's own class): is the instance a valid draft-N schema?
    ("b25", {"anyOf": [{"$ref": "http://json-schema.org/draft-04/schema#"}]},
     [{"type": "even"}, {"type": "string"}, {"type": ["nonempty", "null"]}], None),
    ("b26", {"anyOf": [{"$ref": "http://json-schema.org/draft-07/schema#"}]},
     [{"type": "even"}, {"minimum": "x"}], None),
]
OVERRIDABLE = ["minimum", "maxLength", "enum", "x-marker", "x-also", "required", "items",
               "maximum", "minLength", "pattern", "minItems", "maxItems", "uniqueItems", "properties",
               "additionalProperties", "patternProperties", "dependencies", "allOf", "anyOf", "oneOf", "not", "if",
               "const", "contains", "propertyNames", "multipleOf", "divisibleBy", "format", "$ref", "additionalItems",
               "minProperties", "maxProperties", "exclusiveMinimum", "extends", "disallow"]
T_DEPENDENT = ("b2", "b3")


def _contains_key(node, keys):
    if isinstance(node, dict):
        return any(k in keys or _contains_key(v, keys) for k, v in node.items())
    if isinstance(node, list):
        return any(_contains_key(v, keys) for v in node)
    return False


def generate(rng, tier="quick"):
    n = rng.randint(4, 20)
    kinds = ["tc_redefine", "tc_redefine_many", "tc_remove", "tc_remove_unknown", "extend_noop", "extend_kw",
             "extend_tc", "extend_kw_tc", "create_clone", "create_plain", "create_partial", "subclass_plain", "extend_reuse_dict", "extend_hybrid", "create_version", "create_default_types",
             "create_illegal", "extend_illegal", "instance_types", "fc_new", "fc_subset", "fc_subset_unknown",
             "fc_checks", "cls_checks", "suspend", "resume", "set_meta", "mutate_meta_top", "tc_redefine_same_dict", "extend_version", "instance_future_ref", "instance_future_ref"]
    enabled = [k for k in kinds if rng.random() < 0.75] or kinds
    ops = []
    for i in range(n):
        k = rng.choice(enabled)
        op = {"op": k, "a": rng.randrange(1 << 16), "b": rng.randrange(1 << 16), "v": rng.randrange(4)}
        if k in ("extend_kw", "extend_kw_tc", "extend_version"):
            op["kws"] = rng.sample(OVERRIDABLE, rng.randint(1, 2))
            if rng.random() < 0.15:
                op["kws"] = ["$ref"]
        if k == "extend_reuse_dict":
            op["kws"] = rng.sample(OVERRIDABLE, rng.randint(1, 2))
        if k == "create_partial":
            # a small dialect: a keyword table WITHOUT some of the parent's keywords (often without $ref)
            op["kws"] = rng.sample(OVERRIDABLE, rng.randint(1, 3)) + (["$ref"] if rng.random() < 0.6 else [])
        if k in ("tc_redefine", "tc_redefine_many", "tc_remove"):
            op["names"] = rng.sample(["even", "nonempty", "null", "any"], rng.randint(1, 2))
        if k in ("fc_checks", "cls_checks"):
            # the same user FUNCTION OBJECT may be registered on several checkers, each time with its own `raises`
            op["shared_fn"] = rng.choice([None, None, 0, 1, 0])
            op["raises"] = rng.choice(["v", "v", "k", "vk", "none", "l"])
            op["name"] = rng.choice(["sim-evenlen", "sim-lower", "sim-noz", "ipv4", "sim-new-%d" % (i % 3)])
            if k == "fc_checks" and rng.random() < 0.25:
                op["builtin_target"] = True
                op["name"] = rng.choice(["regex", "uri", "uri-reference", "sim-new-%d" % (i % 3)])
                op["shared_fn"] = rng.choice([0, 1])
        if k == "fc_subset":
            op["names"] = rng.sample(["ipv4", "date", "regex", "email"], rng.randint(0, 3))
        ops.append(op)
        if k in ("create_version", "create_clone") and rng.random() < 0.6:
            # a later versioned extension of the very class this one was cloned from (it re-registers the
            # dialect the clone's metaschema names in its `$schema`)
            ops.append({"op": rng.choice(["tc_redefine", "fc_new", "extend_noop"]), "a": rng.randrange(1 << 16),
                        "b": rng.randrange(1 << 16), "v": rng.randrange(4), "names": ["even"]})
            ops.append({"op": "extend_version", "a": op["a"], "b": rng.randrange(1 << 16), "v": rng.choice([1, 3, 2]),
                        "same_as": len(ops) - 2, "kws": rng.sample(["minimum", "enum", "required", "items", "maxLength"],
                                                                    rng.randint(1, 2))})
    return {"property": PROPERTY, "ops": ops, "base": rng.choice(["draft3", "draft4", "draft6", "draft7"])}


def execute(scn):
    import warnings
    import jsonschema
    from jsonschema import FormatChecker, validators as V, _types
    from jsonschema import exceptions as X
    from dsim import behaviours as B
    from dsim.canon import canon_error, typed, fast
    from dsim.sim import canon_exc
    from dsim.transport import EXC

    warnings.simplefilter("ignore")
    collab = B.Collab()
    stats = {}

    def probe_count(name, n=1):
        stats[name] = stats.get(name, 0) + n

    drafts = {"draft3": jsonschema.Draft3Validator, "draft4": jsonschema.Draft4Validator,
              "draft6": jsonschema.Draft6Validator, "draft7": jsonschema.Draft7Validator}
    draft_fcs = {"draft3": jsonschema.draft3_format_checker, "draft4": jsonschema.draft4_format_checker,
                 "draft6": jsonschema.draft6_format_checker, "draft7": jsonschema.draft7_format_checker}

    fc0 = FormatChecker(formats=())
    fc0.checks("sim-evenlen", raises=(ValueError,))(B.make_format("sim-evenlen", 0, collab))

    # ---------------------------------------------------------------- probes
    def outcome(fn):
        try:
            return fn()
        except Exception as x:
            return {"raised": type(x).__name__}

    def probe_tc(tc):
        out = []
        for name in TYPE_NAMES:
            row = []
            for v in ZOO:
                row.append(outcome(lambda: bool(tc.is_type(v, name))))
            out.append([name, row])
        return out

    def run_errors(validator, inst):
        def go():
            return sorted(jdump(canon_error(e)) for e in validator.iter_errors(copy.deepcopy(inst)))
        return outcome(go)

    def probe_class(K):
        vec = {"keywords": sorted(K.VALIDATORS), "id_of": [outcome(lambda: K.ID_OF({"id": "x", "$id": "y"})),
                                                            outcome(lambda: K.ID_OF({}))],
               "meta": digest(fast(K.META_SCHEMA)), "battery": {}}
        for bid, schema, insts, fck in BATTERY:
            fc = fc0 if fck == "fc0" else (draft_fcs["draft7"] if fck == "draft7" else None)
            rows = []
            vd = K(copy.deepcopy(schema), format_checker=fc)
            for inst in insts:
                rows.append(run_errors(vd, inst))
            vec["battery"][bid] = rows
        ve = K({})
        vec["is_type"] = [[n, [outcome(lambda: bool(ve.is_type(v, n))) for v in (1, 1.0, "a", 2, None)]]
                          for n in ("integer", "even", "null", "ghost")]
        vec["check_schema"] = [outcome(lambda: K.check_schema(copy.deepcopy(c)))
                               for c in ({"minimum": "x"}, {"type": 12}, {"maxLength": -1}, {"minimum": 3, "type": "integer"},
                                         {"properties": {"a": {"enum": []}}}, {"required": "a"},
                                         {"type": "even"}, {"type": ["nonempty", "string"]}, {"type": "ghost"},
                                         {"pattern": "abc", "$id": "urn:x", "id": "urn:x", "$ref": "a b"})]
        vec["default_types"] = outcome(lambda: sorted((k, repr(t)) for k, t in K.DEFAULT_TYPES.items()))
        return vec

    def probe_instance(v):
        return {"errs": [run_errors(v, i) for i in (1, 1.0, "a", {"a": 1.5}, [True], {"m": {"type": 12}}, {"m": {}})],
                "is_type": [[n, [outcome(lambda: bool(v.is_type(x, n))) for x in (1, 1.0, True, "a")]]
                            for n in ("integer", "number", "string", "even")]}

    def probe_fc(f):
        rows = []
        for name in FMT_NAMES:
            rows.append([name, [outcome(lambda: bool(f.conforms(x, name))) for x in FMT_ZOO]])
        return {"names": sorted(f.checkers), "conforms": rows}

    def registry_snapshot():
        return {"meta_schemas": sorted((k, id(v)) for k, v in V.meta_schemas.items() if "json-schema.org" in k),
                "validators": sorted((k, id(v)) for k, v in V.validators.items() if k.startswith("draft"))}

    PROBE = {"tc": probe_tc, "class": probe_class, "inst": probe_instance, "fc": probe_fc}
    objs = []       # {"kind", "obj", "vec", "born", "fns"}
    model_registry = sorted(FormatChecker.checkers)
    reg0 = registry_snapshot()

    def add(kind, obj, step, note=""):
        ent = {"kind": kind, "obj": obj, "vec": PROBE[kind](obj), "born": step, "note": note}
        if kind == "class":
            ent["fns"] = dict(obj.VALIDATORS)
        objs.append(ent)
        return ent

    base = drafts[scn["base"]]
    other = "draft7" if scn["base"] != "draft7" else "draft4"
    for name in (scn["base"], other):
        add("class", drafts[name], -1, name)
        add("tc", drafts[name].TYPE_CHECKER, -1, name)
    for name in ("draft3", "draft4", "draft6", "draft7"):
        add("fc", draft_fcs[name], -1, name)
    add("fc", fc0, -1, "fc0")
    add("fc", FormatChecker(), -1, "default")

    def pick(kind, r, prefer_base=False):
        c = [o for o in objs if o["kind"] == kind]
        return c[r % len(c)]

    def kw_override(name, variant):
        if name in ("x-marker", "x-also"):
            return B.make_keyword(name, variant, collab)

        def kw(validator, value, instance, schema):
            collab.hit("kw:" + name)
            if variant % 2:
                yield X.ValidationError("override(%s,%d): always fails for %r" % (name, variant, instance))
        return kw

    RAISES = {"v": (ValueError,), "k": (KeyError,), "vk": (ValueError, KeyError), "none": (), "l": (LookupError,)}

    def _shared0(instance):
        if instance == "z":
            raise KeyError("dsim: z")
        if instance == "(":
            raise ValueError("dsim: (")
        return not isinstance(instance, str) or len(instance) % 2 == 0

    def _shared1(instance):
        if instance == "ABC":
            raise IndexError("dsim: ABC")
        if instance == "abc":
            raise ValueError("dsim: abc")
        return not isinstance(instance, str) or instance != "ab"
    shared_fns = [_shared0, _shared1]

    violations = []
    suspended = []       # {"it", "first", "full", "owner", "step"}
    log = []
    states = []
    derivations = 0
    shared_touch = 0
    older_probed = 0

    def check_all(step, opname, failed):
        nonlocal older_probed
        for idx, o in enumerate(objs):
            now = PROBE[o["kind"]](o["obj"])
            probe_count("probe_vectors_compared")
            if o["born"] < step:
                older_probed += 1
            if jdump(now) != jdump(o["vec"]):
                diff = [k for k in (now if isinstance(now, dict) else {}) if jdump(now[k]) != jdump(o["vec"][k])]
                violations.append({"oracle": "earlier-object-changed-behaviour", "where": step, "op": opname,
                                   "detail": {"object": [o["kind"], o["note"], o["born"]], "fields": diff,
                                              "after_failed_operation": failed}})
                return
            if o["kind"] == "class":
                for k, fn in o["fns"].items():
                    if o["obj"].VALIDATORS.get(k) is not fn:
                        violations.append({"oracle": "earlier-class-keyword-table-changed", "where": step, "op": opname,
                                           "detail": {"object": [o["note"], o["born"]], "keyword": k}})
                        return
        # (which class a metaschema id dispatches to is C20's subject; extend(..., version=) legitimately rebinds it)

    def compare_with_parent(step, opname, parent, child_vec, changed_kws, tc_changed):
        pv = parent["vec"]
        if not changed_kws and not tc_changed:
            probe_count("noop_extend_compared")
            # (the deprecated DEFAULT_TYPES attribute is part of each object's own vector, but not of this
            #  comparison: extend() never carries default_types over, and the property speaks of behaviour on inputs)
            for field in ("keywords", "id_of", "meta", "battery", "is_type", "check_schema"):
                if jdump(pv[field]) != jdump(child_vec[field]):
                    violations.append({"oracle": "unchanged-derivation-differs-from-parent", "where": step, "op": opname,
                                       "detail": {"field": field, "parent": parent["note"]}})
                    return
            return
        probe_count("override_vs_parent_compared")
        if jdump(pv["id_of"]) != jdump(child_vec["id_of"]):
            violations.append({"oracle": "derivation-lost-id_of", "where": step, "op": opname,
                               "detail": {"parent": parent["note"], "got": child_vec["id_of"], "want": pv["id_of"]}})
            return
        for bid, schema, insts, fck in BATTERY:
            if bid in ("b25", "b26"):
                continue     # a whole metaschema is evaluated: it uses nearly every keyword and every type
            if tc_changed and _contains_key(schema, ("type",)):
                continue     # a different type checker legitimately changes every `type` verdict
            if _contains_key(schema, changed_kws):
                # only errors attributed to the overridden keywords may differ
                for r in range(len(insts)):
                    a, b = pv["battery"][bid][r], child_vec["battery"][bid][r]
                    if isinstance(a, dict) or isinstance(b, dict):
                        continue
                    import json as _j
                    # errors reported under a top-level keyword of the probe that IS overridden, or whose value
                    # mentions an overridden keyword (an applicator around it), or that leaves through a reference
                    # into a schema mentioning one, may legitimately differ; all others may not
                    tainted = set()
                    for K in schema:
                        if K in changed_kws or _contains_key({"_": schema[K]}, changed_kws) or \
                                (K == "$ref" or _contains_key({"_": schema[K]}, ("$ref",))):
                            tainted.add(K)
                    # a top-level $ref stands for the whole schema (its siblings are not evaluated) and referred
                    # errors carry no "$ref" in their path: when $ref is among the changed keywords only errors
                    # reported under a SIBLING keyword of the $ref are comparable (none, in this library)
                    ref_top = "$ref" in schema and "$ref" in tainted
                    if "if" in tainted or "then" in tainted or "else" in tainted:
                        tainted.update(("if", "then", "else"))   # errors of `if` are reported under then / else

                    def keep(e):
                        d = _j.loads(e)
                        sp = d["schema_path"][1]
                        top = sp[0][1] if sp and isinstance(sp[0], list) else None
                        if d["validator"] in [["s", k] for k in changed_kws]:
                            return False       # (`if` and `$ref` do not prepend themselves to the schema path)
                        if ref_top:
                            return top in schema and top != "$ref" and top not in tainted
                        return top not in tainted
                    fa = [e for e in a if keep(e)]
                    fb = [e for e in b if keep(e)]
                    if fa != fb:
                        violations.append({"oracle": "override-changed-other-keywords", "where": step, "op": opname,
                                           "detail": {"battery": bid, "instance": insts[r], "overridden": changed_kws,
                                                      "parent_only": [e for e in fa if e not in fb][:2],
                                                      "child_only": [e for e in fb if e not in fa][:2]}})
                        return
                continue
            if jdump(pv["battery"][bid]) != jdump(child_vec["battery"][bid]):
                violations.append({"oracle": "override-changed-unrelated-schema", "where": step, "op": opname,
                                   "detail": {"battery": bid, "overridden": changed_kws, "parent": parent["note"]}})
                return

    def _inside(err, kws):
        sp = err["schema_path"][1]
        return any(x in [["s", k] for k in kws] for x in sp)

    fresh_id = [0]
    parents_used = {}

    for step, op in enumerate(scn["ops"]):
        k = op["op"]
        failed = False
        ok = False
        try:
            if k in ("tc_redefine", "tc_redefine_many"):
                src = pick("tc", op["a"])
                defs = dict((n, B.make_type(n, op["v"], collab) if n in B.TYPES else (lambda c, i: i is None))
                            for n in op["names"])
                new = src["obj"].redefine(op["names"][0], defs[op["names"][0]]) if k == "tc_redefine" \
                    else src["obj"].redefine_many(defs)
                add("tc", new, step, k)
                ok = True
                shared_touch += 1
            elif k == "tc_remove":
                src = pick("tc", op["a"])
                new = src["obj"].remove(*op["names"])
                add("tc", new, step, k)
                ok = True
                shared_touch += 1
            elif k == "tc_remove_unknown":
                src = pick("tc", op["a"])
                src["obj"].remove("string", "ghost-%d" % op["v"])
            elif k in ("extend_noop", "extend_kw", "extend_tc", "extend_kw_tc"):
                parent = pick("class", op["a"])
                kws = {}
                if "kw" in k:
                    kws = dict((n, kw_override(n, op["v"])) for n in op["kws"])
                tc = None
                if "tc" in k:
                    tc = pick("tc", op["b"])["obj"]
                new = V.extend(parent["obj"], validators=kws, type_checker=tc)
                ent = add("class", new, step, k + "<" + parent["note"])
                compare_with_parent(step, k, parent, ent["vec"], sorted(kws), tc is not None)
                ok = True
                shared_touch += 1
            elif k == "extend_version":
                # extend(..., version=...) registers the new class under its PARENT's metaschema id (it inherits the
                # metaschema): what `$schema` dispatches to afterwards is C20's business, but every existing class
                # must go on behaving as before, check_schema included
                parent = parents_used.get(op.get("same_as"), None) or pick("class", op["a"])
                kws = dict((n, kw_override(n, op["v"])) for n in op.get("kws", ())) if op["v"] % 2 else {}
                tcv = pick("tc", op["b"])["obj"] if op["v"] >= 2 else None     # (also with another type checker)
                new = V.extend(parent["obj"], validators=kws, version="dsim c16 ext %d" % step, type_checker=tcv)
                ent = add("class", new, step, "extend_version<" + parent["note"])
                compare_with_parent(step, k, parent, ent["vec"], sorted(kws), tcv is not None)
                ok = True
                shared_touch += 1
            elif k == "extend_illegal":
                # a class created with default_types cannot be extended with a type checker
                with_dt = [o for o in objs if o["kind"] == "class" and o["note"].startswith("create_default_types")]
                if with_dt:
                    V.extend(with_dt[op["a"] % len(with_dt)]["obj"], type_checker=pick("tc", op["b"])["obj"])
                else:
                    raise TypeError("nothing to do")
            elif k == "create_clone":
                parent = pick("class", op["a"])
                parents_used[step] = parent
                P = parent["obj"]
                new = V.create(meta_schema=P.META_SCHEMA, validators=P.VALIDATORS, type_checker=P.TYPE_CHECKER,
                               id_of=P.ID_OF)
                ent = add("class", new, step, "create_clone<" + parent["note"])
                compare_with_parent(step, k, parent, ent["vec"], [], False)
                ok = True
                shared_touch += 1
            elif k == "create_plain":
                parent = pick("class", op["a"])
                new = V.create(meta_schema={"$id": "urn:dsim:meta:%d" % step}, validators=parent["obj"].VALIDATORS)
                add("class", new, step, k)
                ok = True
            elif k == "extend_reuse_dict":
                # ONE overrides dict handed to extend() twice, for two different parents: the mapping is the caller's
                # (it must come back unchanged) and each child differs from ITS parent in the listed keywords only
                pa, pb = pick("class", op["a"]), pick("class", op["b"])
                ov = dict((n, kw_override(n, op["v"])) for n in op["kws"])
                before = dict(ov)
                for parent in (pa, pb):
                    new = V.extend(parent["obj"], validators=ov)
                    if dict(ov) != before or any(ov[n] is not before[n] for n in before):
                        violations.append({"oracle": "extend-modified-the-callers-mapping", "where": step, "op": k,
                                           "detail": {"before": sorted(before), "after": sorted(ov)[:12]}})
                        break
                    ent = add("class", new, step, k + "<" + parent["note"])
                    compare_with_parent(step, k, parent, ent["vec"], sorted(before), False)
                probe_count("one_overrides_dict_used_for_two_extensions")
                ok = True
                shared_touch += 1
            elif k == "extend_hybrid":
                # another class's keyword table handed over as the overrides (a "hybrid" dialect): that class stays as it is
                pa, pb = pick("class", op["a"]), pick("class", op["b"])
                new = V.extend(pa["obj"], validators=pb["obj"].VALIDATORS)
                add("class", new, step, k)
                probe_count("existing_keyword_table_passed_as_overrides")
                ok = True
                shared_touch += 1
            elif k == "subclass_plain":
                # the other way to derive: a plain `class Mine(DraftNValidator): pass` (here with a class attribute of
                # its own) - behaves like its parent and disturbs nobody
                parent = pick("class", op["a"])
                new = type("DsimSub%d" % step, (parent["obj"],), {"dsim_note": step})
                # (not kept for later re-probing: by Python's own rules it follows every later change of its parent)
                compare_with_parent(step, k, parent, probe_class(new), [], False)
                probe_count("plain_subclass_derived")
                ok = True
            elif k == "create_partial":
                parent = pick("class", op["a"])
                P = parent["obj"]
                table = dict((n, f) for n, f in P.VALIDATORS.items() if n not in op["kws"])
                new = V.create(meta_schema={"$id": "urn:dsim:meta:%d" % step, "id": "urn:dsim:meta:%d" % step},
                               validators=table, type_checker=P.TYPE_CHECKER, id_of=P.ID_OF)
                add("class", new, step, "create_partial-without-" + "+".join(sorted(op["kws"])))
                probe_count("class_without_some_keywords_created")
                ok = True
            elif k == "create_version":
                parent = pick("class", op["a"])
                parents_used[step] = parent
                P = parent["obj"]
                fresh_id[0] += 1
                meta = dict(P.META_SCHEMA)
                meta["id"] = meta["$id"] = "urn:dsim:c16:meta-%d" % step
                new = V.create(meta_schema=meta, validators=P.VALIDATORS, version="dsim c16 v%d" % step,
                               type_checker=P.TYPE_CHECKER, id_of=P.ID_OF)
                add("class", new, step, k)
                ok = True
                shared_touch += 1
            elif k == "create_default_types":
                parent = pick("class", op["a"])
                new = V.create(meta_schema={}, validators=parent["obj"].VALIDATORS,
                               default_types={"integer": (int, float), "string": str, "number": (int, float),
                                              "object": dict, "array": list, "boolean": bool, "null": type(None)})
                add("class", new, step, "create_default_types")
                ok = True
            elif k == "create_illegal":
                V.create(meta_schema={}, default_types={"integer": int}, type_checker=pick("tc", op["a"])["obj"])
            elif k == "instance_types":
                parent = pick("class", op["a"])
                v = parent["obj"]({"type": "integer", "properties": {"a": {"type": "integer"}},
                                   "items": {"type": "string"}},
                                  types={"integer": (int, float), "string": (str, bool)} if op["v"] % 2 else
                                  {"even": int, "number": (int,)})
                add("inst", v, step, "types=<" + parent["note"])
                ok = True
                shared_touch += 1
            elif k == "instance_future_ref":
                # a validator OBJECT whose schema refers to a metaschema id that only a LATER create(version=) of this
                # history registers (or to none at all): what it resolves to is fixed when it is built
                parent = pick("class", op["a"])
                later = [j for j in range(step + 1, len(scn["ops"])) if scn["ops"][j]["op"] == "create_version"]
                target = "urn:dsim:c16:meta-%d" % (later[op["b"] % len(later)] if later else 9999)
                v = parent["obj"]({"properties": {"m": {"$ref": target}, "a": {"type": "number"}}, "type": "object"})
                add("inst", v, step, "future-ref<" + parent["note"])
                probe_count("instance_refers_to_id_registered_later" if later else "instance_refers_to_unregistered_id")
                ok = True
            elif k == "fc_new":
                f = FormatChecker()
                ent = add("fc", f, step, "FormatChecker()")
                if ent["vec"]["names"] != model_registry:
                    violations.append({"oracle": "new-FormatChecker-differs-from-class-registry-model", "where": step,
                                       "op": k, "detail": {"got": ent["vec"]["names"], "model": model_registry}})
                ok = True
            elif k == "fc_subset":
                names = [n for n in op["names"] if n in model_registry]
                given = list(names)
                f = FormatChecker(formats=given)
                given.append("regex")          # the caller's list is the caller's business afterwards
                del given[:1]
                ent = add("fc", f, step, "FormatChecker(formats=...)")
                if ent["vec"]["names"] != sorted(names):
                    violations.append({"oracle": "subset-FormatChecker-has-wrong-names", "where": step, "op": k,
                                       "detail": {"got": ent["vec"]["names"], "want": sorted(names)}})
                ok = True
            elif k == "fc_subset_unknown":
                FormatChecker(formats=["ipv4", "ghost-format-%d" % op["v"]])
            elif k == "fc_checks":
                own = [o for o in objs if o["kind"] == "fc" and o["born"] >= 0]
                if op.get("builtin_target"):
                    # the module-level jsonschema.draftN_format_checker objects are public FormatChecker instances
                    # too: registering on one of them changes that checker - and no class, not even its draft's
                    # (a name the probe battery does not use with that checker: the target itself is re-probed)
                    own = [o for o in objs if o["kind"] == "fc" and o["born"] < 0 and o["note"].startswith("draft")]
                    probe_count("registration_on_builtin_draft_checker")
                if own:
                    tgt = own[op["a"] % len(own)]
                    fn = B.make_format(op["name"] if op["name"] in B.FORMATS else "sim-lower", op["v"], collab)
                    if op.get("shared_fn") is not None:
                        fn = shared_fns[op["shared_fn"]]
                        probe_count("same_function_object_registered_again")
                    tgt["obj"].checks(op["name"], raises=RAISES[op.get("raises", "v")])(fn)
                    tgt["vec"] = probe_fc(tgt["obj"])          # the target itself is *meant* to change
                    ok = True
                    shared_touch += 1
            elif k == "cls_checks":
                fn = B.make_format(op["name"] if op["name"] in B.FORMATS else "sim-noz", op["v"], collab)
                if op.get("shared_fn") is not None:
                    fn = shared_fns[op["shared_fn"]]
                    probe_count("same_function_object_registered_again")
                if any(o["kind"] == "fc" and o["born"] >= 0 for o in objs):
                    probe_count("cls_checks_after_instance_created")
                FormatChecker.cls_checks(op["name"], raises=RAISES[op.get("raises", "v")])(fn)
                if op["name"] not in model_registry:
                    model_registry = sorted(model_registry + [op["name"]])
                ok = True
                shared_touch += 1
            elif k == "set_meta":
                # documented in extend(): "modify META_SCHEMA directly on the returned class" (with a copy)
                own = [o for o in objs if o["kind"] == "class" and o["born"] >= 0]
                if own:
                    tgt = own[op["a"] % len(own)]
                    meta = dict(tgt["obj"].META_SCHEMA)
                    meta["title"] = "dsim changed at step %d" % step
                    tgt["obj"].META_SCHEMA = meta
                    tgt["vec"] = probe_class(tgt["obj"])          # the target itself is *meant* to change
                    probe_count("derived_class_metaschema_replaced")
                    ok = True
                    shared_touch += 1
            elif k == "mutate_meta_top":
                # create() gives every class its own (shallow) copy of the metaschema: adding a top-level key to a
                # derived class's copy must not reach its parent or its siblings
                own = [o for o in objs if o["kind"] == "class" and o["born"] >= 0]
                if own:
                    tgt = own[op["a"] % len(own)]
                    tgt["obj"].META_SCHEMA["x-dsim-note-%d" % step] = step
                    tgt["vec"] = probe_class(tgt["obj"])
                    probe_count("derived_class_metaschema_mutated_top_level")
                    ok = True
                    shared_touch += 1
            elif k == "tc_redefine_same_dict":
                # two checkers derived from ONE definitions dict object, then one of them loses a name
                src = pick("tc", op["a"])
                defs = dict((n, B.make_type(n, op["v"], collab)) for n in ("even", "nonempty"))
                one = src["obj"].redefine_many(defs)
                two = src["obj"].redefine_many(defs)
                add("tc", one, step, k + ":one")
                add("tc", two, step, k + ":two")
                three = two.remove("even")
                add("tc", three, step, k + ":two-minus-even")
                defs["even"] = lambda checker, instance: True      # the caller's dict is the caller's business
                ok = True
                shared_touch += 1
            elif k == "suspend":
                owner = pick("class", op["a"])
                schema = {"items": {"type": "string", "maxLength": 1}, "maxItems": 1, "minimum": 5}
                inst = [1, "abc", 2.5]
                full = run_errors(owner["obj"](copy.deepcopy(schema)), inst)
                it = owner["obj"](copy.deepcopy(schema)).iter_errors(copy.deepcopy(inst))
                first = outcome(lambda: jdump(canon_error(next(it))))
                suspended.append({"it": it, "first": first, "full": full, "step": step, "owner": owner["note"]})
            elif k == "resume":
                if suspended:
                    s = suspended.pop(op["a"] % len(suspended))
                    rest = outcome(lambda: [jdump(canon_error(e)) for e in s["it"]])
                    got = sorted([s["first"]] + rest) if isinstance(rest, list) and not isinstance(s["first"], dict) else None
                    if derivations > 0:
                        probe_count("resume_after_derivation")
                    if got is not None and not isinstance(s["full"], dict) and got != s["full"]:
                        violations.append({"oracle": "suspended-iterator-disturbed-by-later-derivation", "where": step,
                                           "op": k, "detail": {"owner": s["owner"], "suspended_at": s["step"]}})
            else:
                raise AssertionError(k)
        except AssertionError:
            raise
        except Exception as x:
            failed = True
            probe_count("failed_derivation_checked")
            log.append([step, k, "raised", type(x).__name__])
        if ok:
            derivations += 1
        check_all(step, k, failed)
        log.append([step, k, ok, len(objs)])
        states.append(digest([[sum(1 for o in objs if o["kind"] == kk) for kk in ("tc", "class", "inst", "fc")],
                              model_registry, len(suspended)]))
        if violations:
            break
    stats["ops"] = len(scn["ops"])
    stats["objects"] = len(objs)
    stats["fault:derive_fails"] = stats.get("failed_derivation_checked", 0)
    nontrivial = derivations >= 2 and shared_touch >= 1 and older_probed >= 1
    return {"violations": violations, "nontrivial": bool(nontrivial), "stats": stats, "steps": len(log),
            "log_digest": digest(log), "states": states, "sched": None}


def run(scn, fork_call):
    return fork_call(execute, scn)


def violation_class(v):
    return "C16/" + v["oracle"]


def shrink(scn):
    from dsim.minimise import shrink_ops
    for c in shrink_ops(scn, "ops"):
        yield c
    for i, op in enumerate(scn["ops"]):
        if len(op.get("kws", ())) > 1:
            for j in range(len(op["kws"])):
                c = copy.deepcopy(scn)
                del c["ops"][i]["kws"][j]
                yield c
        if len(op.get("names", ())) > 1:
            for j in range(len(op["names"])):
                c = copy.deepcopy(scn)
                del c["ops"][i]["names"][j]
                yield c
        for f in ("a", "b", "v"):
            if op.get(f):
                c = copy.deepcopy(scn)
                c["ops"][i][f] = 0
                yield c


def sample_view(scn):
    return {"base": scn["base"], "ops": scn["ops"]}


def known_finding(v, scn):
    return None
