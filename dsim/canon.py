"""Canonical, type-strict observations (true != 1, 1 != 1.0) and digests."""
import hashlib
import json


def typed(v):
    """Type-strict, order-normalised JSON-able rendering of a JSON-ish value."""
    if v is None:
        return ["n"]
    if v is True:
        return ["b", 1]
    if v is False:
        return ["b", 0]
    if isinstance(v, int):
        return ["i", str(v)]
    if isinstance(v, float):
        return ["f", repr(v)]
    if type(v).__name__ == "Decimal":
        return ["d", str(v)]
    if isinstance(v, str):
        return ["s", v]
    if isinstance(v, (list, tuple)):
        return ["l", [typed(x) for x in v]]
    if isinstance(v, dict):
        items = [[typed(k), typed(x)] for k, x in v.items()]
        items.sort(key=lambda kv: json.dumps(kv[0], sort_keys=True))
        return ["o", items]
    if hasattr(v, "items") and hasattr(v, "keys"):  # mapping-like (URIDict...)
        items = [[typed(k), typed(v[k])] for k in v.keys()]
        items.sort(key=lambda kv: json.dumps(kv[0], sort_keys=True))
        return ["o", items]
    return ["?", type(v).__name__, repr(v)[:200]]


def jdump(o):
    return json.dumps(o, sort_keys=True, separators=(",", ":"), ensure_ascii=True, default=repr)


def fast(v):
    """Type-strict canonical string of a pure-JSON value (C encoder: true/1/1.0 stay distinct)."""
    try:
        return json.dumps(v, sort_keys=True, separators=(",", ":"))
    except (TypeError, ValueError):
        return jdump(typed(v))


def digest(o):
    return hashlib.sha256(jdump(o).encode()).hexdigest()[:16]


_UNSET_NAMES = ("Unset",)


def _field(v):
    if type(v).__name__ in _UNSET_NAMES:
        return ["unset"]
    if isinstance(v, (dict, list)):
        # big or deeply nested values are represented by a digest of their type-strict, key-sorted JSON text
        # (the C encoder copes with depths the recursive walker and its doubly nested output do not)
        try:
            text = json.dumps(v, sort_keys=True, separators=(",", ":"))
            if len(text) > 1500:
                return ["big", hashlib.sha256(text.encode()).hexdigest()[:16], len(text)]
        except (TypeError, ValueError):
            pass
    return typed(v)


def canon_error(e, with_context=True):
    """Canonical rendering of a jsonschema ValidationError (public attributes only)."""
    cause = getattr(e, "cause", None)
    ctx = []
    if with_context:
        ctx = sorted((canon_error(c) for c in (getattr(e, "context", None) or [])), key=jdump)
    return {
        "message": getattr(e, "message", None) if len(getattr(e, "message", None) or "") < 4000
        else "<long message %s>" % hashlib.sha256((getattr(e, "message") or "").encode("utf-8", "replace")).hexdigest()[:16],
        "validator": _field(getattr(e, "validator", None)),
        "validator_value": _field(getattr(e, "validator_value", None)),
        "path": typed(list(getattr(e, "path", ()))),
        "schema_path": typed(list(getattr(e, "schema_path", ()))),
        "instance": _field(getattr(e, "instance", None)),
        "cause": None if cause is None else [type(cause).__name__, str(cause)[:200]],
        "context": ctx,
    }


def multiset(errs):
    """Sorted list of canonical strings (multiset equality == list equality)."""
    return sorted(jdump(e) for e in errs)


def is_submultiset(small, big):
    big = list(big)
    for s in small:
        try:
            big.remove(s)
        except ValueError:
            return False
    return True
