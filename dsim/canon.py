"""Canonical, type-strict observations (true != 1, 1 != 1.0) and digests."""
import hashlib
import threading
import json


def typed(v):
    """Type-strict, order-normalised JSON-able rendering of a JSON-ish value."""
    if v is None:
        return ["n"]
    if v is True:
        return ["b", 1]
    if v is False:
        return ["b", 0]
    if isinstance(v, int):
        return ["i", str(v)]
    if isinstance(v, float):
        return ["f", repr(v)]
    if type(v).__name__ == "Decimal":
        return ["d", str(v)]
    if isinstance(v, str):
        return ["s", v]
    if isinstance(v, (list, tuple)):
        return ["l", [typed(x) for x in v]]
    if isinstance(v, dict):
        items = [[typed(k), typed(x)] for k, x in v.items()]
        items.sort(key=lambda kv: json.dumps(kv[0], sort_keys=True))
        return ["o", items]
    if hasattr(v, "items") and hasattr(v, "keys"):  # mapping-like (URIDict...)
        items = [[typed(k), typed(v[k])] for k in v.keys()]
        items.sort(key=lambda kv: json.dumps(kv[0], sort_keys=True))
        return ["o", items]
    return ["?", type(v).__name__, repr(v)[:200]]


def jdump(o):
    return json.dumps(o, sort_keys=True, separators=(",", ":"), ensure_ascii=True, default=repr)


def fast(v):
    """Type-strict canonical string of a pure-JSON value (C encoder: true/1/1.0 stay distinct)."""
    try:
        return json.dumps(v, sort_keys=True, separators=(",", ":"))
    except (TypeError, ValueError):
        return jdump(typed(v))


def digest(o):
    return hashlib.sha256(jdump(o).encode()).hexdigest()[:16]


_UNSET_NAMES = ("Unset",)


def _field(v):
    if type(v).__name__ in _UNSET_NAMES:
        return ["unset"]
    if isinstance(v, (dict, list)):
        # big or deeply nested values are represented by a digest of their type-strict, key-sorted JSON text
        # (the C encoder copes with depths the recursive walker and its doubly nested output do not)
        try:
            text = json.dumps(v, sort_keys=True, separators=(",", ":"))
            if len(text) > 1500:
                return ["big", hashlib.sha256(text.encode()).hexdigest()[:16], len(text)]
            return ["j", text]      # the C encoder's text is type-strict (true / 1 / 1.0 stay distinct)
        except (TypeError, ValueError):
            pass
    return typed(v)


BIG_CONTEXT = 40


def _canon(e, with_context):
    """(canonical node, its digest, number of errors in its subtree) - one serialisation per node.

    Children are ordered by digest; a subtree of more than BIG_CONTEXT errors is represented in its parent by
    a count and a digest of the ordered child digests (exponential oneOf/anyOf trees have thousands of nodes,
    each carrying its subschema and instance: re-serialising whole subtrees at every level took minutes).
    """
    cause = getattr(e, "cause", None)
    kids = []
    n = 1
    if with_context:
        for c in (getattr(e, "context", None) or []):
            node, key, cnt = _canon(c, True)
            kids.append((key, node))
            n += cnt
        kids.sort(key=lambda kn: kn[0])
    if n > BIG_CONTEXT:
        ctx = ["big-context", n, hashlib.sha256(",".join(k for k, _ in kids).encode()).hexdigest()[:16]]
    else:
        ctx = [node for _, node in kids]
    msg = getattr(e, "message", None)
    node = {
        "message": msg if len(msg or "") < 4000
        else "<long message %s>" % hashlib.sha256((msg or "").encode("utf-8", "replace")).hexdigest()[:16],
        "validator": _field(getattr(e, "validator", None)),
        "validator_value": _field(getattr(e, "validator_value", None)),
        "path": typed(list(getattr(e, "path", ()))),
        "schema_path": typed(list(getattr(e, "schema_path", ()))),
        "instance": _field(getattr(e, "instance", None)),
        "cause": None if cause is None else [type(cause).__name__, str(cause)[:200]],
        "context": ctx,
    }
    return node, hashlib.sha256(jdump(node).encode()).hexdigest()[:24], n


_tl = threading.local()


def nodes():
    """Number of errors (context included) canonised so far by this thread: a deterministic measure of how
    heavy a scenario is (exponential oneOf/anyOf trees), used to cut such scenarios short."""
    return getattr(_tl, "n", 0)


def set_nodes(v):
    _tl.n = v


def canon_error(e, with_context=True):
    """Canonical rendering of a jsonschema ValidationError (public attributes only)."""
    node, _, n = _canon(e, with_context)
    _tl.n = getattr(_tl, "n", 0) + n
    return node


def multiset(errs):
    """Sorted list of canonical strings (multiset equality == list equality)."""
    return sorted(jdump(e) for e in errs)


def is_submultiset(small, big):
    big = list(big)
    for s in small:
        try:
            big.remove(s)
        except ValueError:
            return False
    return True
