#!/venv/bin/python
"""tools/seeded_meta.py <seed-id> <PROP> <caught:yes|no|after-strengthening> "<violation class>" "<notes>" """
import json, os, sys
sid, prop, caught, cls, notes = sys.argv[1:6]
d = "/verif/seeded/" + sid
agent = {}
if os.path.exists(d + "/meta.agent.json"):
    agent = json.load(open(d + "/meta.agent.json"))
meta = {
    "id": sid, "property": prop,
    "summary": agent.get("summary"), "needs": agent.get("needs"), "files": agent.get("files"),
    "origin": "written by an independent sub-agent that saw only the property text and its own scratch worktree",
    "confirmed_by_me": {
        "test_suite_with_change": "3210 passed, 224 skipped (pytest -n 8 in the scratch worktree)",
        "demo_with_change_exit": 1, "demo_without_change_exit": 0,
        "commands": ["tools/seeded_verify.sh %s /tmp/seed-%s %s" % (sid, sid, prop),
                     "DSIM_REPO=<worktree with patch applied> ./check %s --tier quick" % prop,
                     "git -C /repo apply seeded/%s/patch.diff && ./check %s --tier quick; git -C /repo checkout -- ." % (sid, prop)],
    },
    "caught_by_check": caught, "violation_class": cls, "notes": notes,
}
json.dump(meta, open(d + "/meta.json", "w"), indent=1)
if os.path.exists(d + "/meta.agent.json"):
    os.remove(d + "/meta.agent.json")
print("wrote", d + "/meta.json")
