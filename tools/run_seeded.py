#!/venv/bin/python
"""Re-run the registered checks against every kept seeded change.

For each /verif/seeded/<id>/: copy /repo/jsonschema to a scratch dir (outside /repo and /verif), apply
patch.diff there, run the demo (want exit 1) and the property's quick check through DSIM_REPO (want exit 1
+ VIOLATION), remove the scratch dir.  Usage: tools/run_seeded.py [ids...] [--runs=N]
"""
import json, os, shutil, subprocess, sys, tempfile
VERIF = os.path.dirname(os.path.dirname(os.path.abspath(__file__)))
ids = [a for a in sys.argv[1:] if not a.startswith("--")]
runs = [a.split("=")[1] for a in sys.argv[1:] if a.startswith("--runs=")]
ok = True
for sid in sorted(os.listdir(os.path.join(VERIF, "seeded"))):
    if ids and sid not in ids:
        continue
    d = os.path.join(VERIF, "seeded", sid)
    meta = json.load(open(os.path.join(d, "meta.json")))
    tmp = tempfile.mkdtemp(prefix="dsim-seeded-")
    try:
        shutil.copytree("/repo/jsonschema", os.path.join(tmp, "jsonschema"))
        p = subprocess.run(["patch", "-p1", "-s", "-i", os.path.join(d, "patch.diff")], cwd=tmp,
                           stdout=subprocess.PIPE, stderr=subprocess.STDOUT)
        if p.returncode != 0:
            print("%-8s patch does not apply: %s" % (sid, p.stdout.decode()[-300:])); ok = False; continue
        env = dict(os.environ, PYTHONPATH=tmp)
        demo = subprocess.run(["/venv/bin/python", os.path.join(d, "demo.py")], cwd=tmp, env=env,
                              stdout=subprocess.PIPE, stderr=subprocess.STDOUT, timeout=300).returncode
        env = dict(os.environ, DSIM_REPO=tmp); env.pop("PYTHONHASHSEED", None)
        exp = meta.get("expect_on_current_tree")
        cmd = [os.path.join(VERIF, "check"), meta["property"], "--tier", "quick"] + \
            ([] if exp == "corpus-only" else ["--no-corpus"]) + (["--runs", runs[0]] if runs else [])
        c = subprocess.run(cmd, cwd=VERIF, env=env, stdout=subprocess.PIPE, stderr=subprocess.STDOUT)
        out = c.stdout.decode(errors="replace")
        cls = [l for l in out.splitlines() if l.startswith("violation class")]
        want = 0 if exp in ("pass", "missed") else 1
        want_demo = 0 if exp == "pass" else 1
        tag = {"pass": " (neutralised by a later fix: expected green)", "missed": " (KNOWN MISS: outside the injected fault classes)",
               "corpus-only": " (found by the hand-built corpus scenario only)"}.get(exp, "")
        print("%-8s %s demo_exit=%d check_exit=%d %s%s" % (sid, meta["property"], demo, c.returncode,
                                                         cls[0][:150] if cls else "", tag))
        if c.returncode != want or demo != want_demo:
            ok = False
    finally:
        shutil.rmtree(tmp, ignore_errors=True)
sys.exit(0 if ok else 1)
