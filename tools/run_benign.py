#!/venv/bin/python
"""Re-run the registered checks against every kept BEHAVIOUR-PRESERVING refactoring (benign/<id>/patch.diff):
each check must exit 0 (no VIOLATION, no HARNESS-ERROR).  Usage: tools/run_benign.py [ids...] [--runs=N]"""
import json, os, shutil, subprocess, sys, tempfile
VERIF = os.path.dirname(os.path.dirname(os.path.abspath(__file__)))
ids = [a for a in sys.argv[1:] if not a.startswith("--")]
runs = [a.split("=")[1] for a in sys.argv[1:] if a.startswith("--runs=")]
ok = True
for bid in sorted(os.listdir(os.path.join(VERIF, "benign"))):
    if ids and bid not in ids:
        continue
    d = os.path.join(VERIF, "benign", bid)
    tmp = tempfile.mkdtemp(prefix="dsim-benign-")
    try:
        shutil.copytree("/repo/jsonschema", os.path.join(tmp, "jsonschema"))
        p = subprocess.run(["patch", "-p1", "-s", "-i", os.path.join(d, "patch.diff")], cwd=tmp,
                           stdout=subprocess.PIPE, stderr=subprocess.STDOUT)
        if p.returncode != 0:
            print("%-4s patch does not apply: %s" % (bid, p.stdout.decode()[-300:])); ok = False; continue
        env = dict(os.environ, DSIM_REPO=tmp); env.pop("PYTHONHASHSEED", None)
        for prop in ("C07", "C15", "C16", "C18", "C19", "C20"):
            cmd = [os.path.join(VERIF, "check"), prop, "--tier", "quick"] + (["--runs", runs[0]] if runs else [])
            c = subprocess.run(cmd, cwd=VERIF, env=env, stdout=subprocess.PIPE, stderr=subprocess.STDOUT)
            out = c.stdout.decode(errors="replace")
            line = [l for l in out.splitlines() if l.startswith("dsim: %s runs=" % prop)]
            print("%-4s %s exit=%d %s" % (bid, prop, c.returncode, line[0][:110] if line else out[-200:]))
            if c.returncode != 0:
                ok = False
    finally:
        shutil.rmtree(tmp, ignore_errors=True)
sys.exit(0 if ok else 1)
