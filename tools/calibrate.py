#!/venv/bin/python
"""Sensitivity calibration: apply each textual mutant to a scratch copy of /repo/jsonschema
(outside /repo and /verif, removed afterwards), run the property's check against it through
DSIM_REPO, and report which mutants are caught.  Usage: tools/calibrate.py [ids...] [--runs N] [--tests]
"""
import json
import os
import shutil
import subprocess
import sys
import tempfile

VERIF = os.path.dirname(os.path.dirname(os.path.abspath(__file__)))


def main():
    args = [a for a in sys.argv[1:] if not a.startswith("--")]
    runs = "3000"
    for a in sys.argv[1:]:
        if a.startswith("--runs="):
            runs = a.split("=", 1)[1]
    with_tests = "--tests" in sys.argv
    muts = json.load(open(os.path.join(VERIF, "calibration", "mutants.json")))
    results = []
    for m in muts:
        if args and m["id"] not in args and m["prop"] not in args:
            continue
        tmp = tempfile.mkdtemp(prefix="dsim-mut-")
        try:
            shutil.copytree("/repo/jsonschema", os.path.join(tmp, "jsonschema"))
            for ed in m["edits"]:
                p = os.path.join(tmp, ed["file"])
                s = open(p).read()
                if s.count(ed["old"]) != 1:
                    raise SystemExit("mutant %s: old text occurs %d times in %s" % (m["id"], s.count(ed["old"]), ed["file"]))
                open(p, "w").write(s.replace(ed["old"], ed["new"]))
            env = dict(os.environ, DSIM_REPO=tmp)
            env.pop("PYTHONHASHSEED", None)
            tests = None
            if with_tests:
                t = subprocess.run(["/venv/bin/python", "-m", "pytest", "-q", "-x", "-p", "no:cacheprovider",
                                    "-n", "8", os.path.join(tmp, "jsonschema")], cwd=tmp,
                                   env=dict(os.environ, PYTHONPATH=tmp, JSON_SCHEMA_TEST_SUITE="/repo/json"),
                                   stdout=subprocess.PIPE, stderr=subprocess.STDOUT)
                tests = "pass" if t.returncode == 0 else "FAIL"
            for prop in m["prop"].split(","):
                p = subprocess.run([os.path.join(VERIF, "check"), prop, "--runs", runs, "--no-corpus"], env=env,
                                   stdout=subprocess.PIPE, stderr=subprocess.STDOUT, cwd=VERIF)
                out = p.stdout.decode(errors="replace")
                cls = [l for l in out.splitlines() if l.startswith("violation class")]
                line = [l for l in out.splitlines() if l.startswith("dsim: %s runs=" % prop)]
                results.append((m["id"], prop, p.returncode, tests, cls[0] if cls else "", line[0] if line else out[-300:]))
                print("%-28s %s rc=%d tests=%s %s | %s" % results[-1])
                sys.stdout.flush()
        finally:
            shutil.rmtree(tmp, ignore_errors=True)
    expect = dict((m["id"], 0 if m.get("expect") == "pass" else 1) for m in muts)
    wrong = [r for r in results if r[2] != expect[r[0]]]
    print("as expected %d / %d (semantics-preserving mutants must stay green)" % (len(results) - len(wrong), len(results)))
    for r in wrong:
        print("UNEXPECTED: %s %s rc=%d" % (r[0], r[1], r[2]))
    return 0


if __name__ == "__main__":
    sys.exit(main())
