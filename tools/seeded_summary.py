#!/venv/bin/python
"""Per-wave summary of seeded/<id>/meta.json (how each independently written change fared)."""
import json, os, collections
VERIF = os.path.dirname(os.path.dirname(os.path.abspath(__file__)))
waves = collections.OrderedDict()
tot = collections.Counter()
for sid in sorted(os.listdir(os.path.join(VERIF, "seeded")), key=lambda s: (s.split("-")[1], s)):
    m = json.load(open(os.path.join(VERIF, "seeded", sid, "meta.json")))
    c = m.get("caught_by_check") or ""
    kind = "as stood" if c == "yes" else "after strengthening" if c.startswith("after") else \
        "corpus only" if "corpus" in c else "not reliably detected" if "1 scenario in" in c else \
        "outside the fault model" if "fault model" in c else "outside every quantifier"
    w = sid.split("-")[1]
    waves.setdefault(w, collections.Counter())[kind] += 1
    tot[kind] += 1
print("| wave | changes | caught as the checks stood | caught after the workload was widened | other |")
print("|---|---|---|---|---|")
for w, c in waves.items():
    other = ", ".join("%d %s" % (n, k) for k, n in c.items() if k not in ("as stood", "after strengthening"))
    print("| %s | %d | %d | %d | %s |" % (w, sum(c.values()), c["as stood"], c["after strengthening"], other))
print("| all | %d | %d | %d | %s |" % (sum(tot.values()), tot["as stood"], tot["after strengthening"],
                                     ", ".join("%d %s" % (n, k) for k, n in tot.items() if k not in ("as stood", "after strengthening"))))
