#!/bin/bash
# tools/seeded_verify.sh <seed-id> <worktree> <PROP> [runs]
# Confirms a seeded change: test suite passes with it, demo fails with it and passes without it,
# then runs the property's quick check against the changed tree (through DSIM_REPO) and stores
# patch/demo/meta under /verif/seeded/<seed-id>/.
set -u
id=$1; wt=$2; prop=$3; runs=${4:-0}
cd "$wt" || exit 9
echo "== test suite with change"
PYTHONPATH=$wt /venv/bin/python -m pytest -q -p no:cacheprovider -n 8 2>&1 | tail -1
echo "== demo with change (want 1)"
PYTHONPATH=$wt timeout 120 /venv/bin/python seeded/demo.py >/tmp/demo_changed.out 2>&1; dc=$?; echo "exit=$dc"; tail -3 /tmp/demo_changed.out
echo "== demo without change (want 0)"
( cd /tmp && PYTHONPATH=/repo timeout 120 /venv/bin/python $wt/seeded/demo.py >/tmp/demo_unchanged.out 2>&1; echo "exit=$?"; tail -2 /tmp/demo_unchanged.out )
echo "== check $prop against changed tree"
cd /verif
extra=""; [ "$runs" != "0" ] && extra="--runs $runs"
DSIM_REPO=$wt ./check $prop --tier quick $extra > /tmp/check_$id.out 2>&1; rc=$?
grep -E "violation class|^  at |VIOLATION|HARNESS|^dsim: $prop" /tmp/check_$id.out | cut -c1-400
echo "check exit=$rc"
mkdir -p /verif/seeded/$id
( cd $wt && git diff -- jsonschema > /verif/seeded/$id/patch.diff )
cp $wt/seeded/demo.py /verif/seeded/$id/demo.py
cp $wt/seeded/meta.json /verif/seeded/$id/meta.agent.json 2>/dev/null
